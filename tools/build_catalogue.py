#!/venv/bin/python
"""Builds vlib/data/catalogue.json: for every space group its standard-setting Wyckoff positions as *stabilisers*
(sets of (operation index, integer shift) of spglib's Hall-database operations), found from the 1/24 grid and named by
spglib on probe crystals built on spglib's own standardised lattice.  Independent of MatID's tables.  Reference data:
run once (about 1 min on 16 cores); the result is committed and re-verified at load time by vlib/gen/crystals.py."""
import json, sys, os, string
from multiprocessing import Pool
import numpy as np, spglib
sys.path.insert(0, os.path.dirname(os.path.dirname(os.path.abspath(__file__))))
from vlib.oracles import spgref
from vlib.gen.cells import cellpar_to_cell

LETTERS = string.ascii_lowercase + string.ascii_uppercase

def build(sg):
    rng = np.random.default_rng(1000 + sg)
    R, t = spgref.operations(sg)
    for attempt in range(20):
        raw = list(rng.uniform(4, 8, 3)) + list(rng.uniform(75, 105, 3))
        cell = cellpar_to_cell(*spgref.lattice_cellpar(sg, raw))
        pts = np.vstack([spgref.orbit(R, t, rng.uniform(0.05, 0.95, 3)) for _ in range(3)])
        n = len(pts) // 3
        ds = spglib.get_symmetry_dataset((cell, pts, [1] * n + [2] * n + [3] * n), symprec=1e-4)
        if ds is not None and ds.number == sg:
            cell = np.array(ds.std_lattice)
            break
    else:
        raise RuntimeError("no lattice for %d" % sg)
    anchors = [spgref.orbit(R, t, rng.uniform(0.05, 0.95, 3)) for _ in range(2)]
    def letter_of(p):
        tgt = spgref.orbit(R, t, p)
        pts = np.vstack(anchors + [tgt]); nums = [1] * len(anchors[0]) + [2] * len(anchors[1]) + [50] * len(tgt)
        ds = spglib.get_symmetry_dataset((cell, pts, nums), symprec=1e-4)
        if ds is None or ds.number != sg:
            return None
        ident = np.allclose(ds.transformation_matrix, np.eye(3), atol=1e-6) and np.allclose(spgref.wrapd(ds.origin_shift), 0, atol=1e-6)
        if not ident:
            return None
        return ds.wyckoffs[-1], len(tgt)
    cat = {}
    r = letter_of(rng.uniform(0.05, 0.95, 3))
    cat[r[0]] = {"stab": None, "mult": r[1]}
    for sig, p in spgref.grid_stabilisers(sg):
        stab = list(zip(sig[0], sig[1]))
        for tries in range(3):
            q = p + rng.uniform(-0.2, 0.2, 3)
            pp = spgref.project(sg, stab, q)
            r = letter_of(pp)
            if r:
                break
        if r and r[0] not in cat:
            cat[r[0]] = {"stab": [[int(o), [int(x) for x in n]] for o, n in stab], "mult": r[1]}
    letters = sorted(cat, key=LETTERS.index)
    assert letters == list(LETTERS[:len(letters)]), (sg, letters)
    assert cat[letters[-1]]["stab"] is None, (sg, "general position must carry the last letter")
    return sg, {l: cat[l] for l in letters}

if __name__ == "__main__":
    with Pool(16) as pool:
        res = dict(pool.map(build, range(1, 231)))
    total = sum(len(v) for v in res.values())
    print("Wyckoff positions found:", total)
    assert total == 1731, total
    out = {"spglib": spglib.__version__, "grid": 24, "groups": {str(k): res[k] for k in sorted(res)}}
    path = os.path.join(os.path.dirname(os.path.dirname(os.path.abspath(__file__))), "vlib", "data", "catalogue.json")
    json.dump(out, open(path, "w"))
    print("written", path)
