#!/bin/bash
# MANIFEST.setup_cmd: offline, from files on disk only.
set -e
cd "$(dirname "$0")/.."
/venv/bin/python -c "import hypothesis" 2>/dev/null || /venv/bin/pip install --no-index --find-links /opt/veriftools/wheels hypothesis
export PYTHONPATH="$PWD"
# build the C++ shim once for the current sources (also proves the toolchain works); checks rebuild on demand
/venv/bin/python - <<'PY'
from vlib import bootstrap
so = bootstrap.build_shim()
m = bootstrap.load_shim_module(so)
print("shim ok:", so)
PY
mkdir -p evidence replays
echo "setup done"
