#!/usr/bin/env python3
"""Regenerates MANIFEST.json from the table below (one place to edit)."""
import json, os
V = "/verif"
ALL = [json.loads(l)["id"] for l in open(V + "/properties.jsonl")]
# id -> (technique, level text, level note, design ref)
CHECKS = {}
def reg(pid, technique, text, note, ref=None):
    CHECKS[pid] = dict(technique=technique, text=text, note=note, ref=ref or ("3 / " + pid))
exec(open(V + "/tools/manifest_table.py").read())
checks = []
for pid in ALL:
    if pid not in CHECKS: continue
    c = CHECKS[pid]
    checks.append({
        "property_id": pid,
        "quick_cmd": "./check %s --tier quick" % pid,
        "thorough_cmd": "./check %s --tier thorough" % pid,
        "evidence_file": "evidence/%s.json" % pid,
        "replay_cmd_template": "./check %s --replay {path}" % pid,
        "engine": "hypothesis-sharded",
        "level_claimed": {"category": "exploration", "text": c["text"], "design_ref": "DESIGN.md section " + c["ref"]},
        "level_note": c["note"],
        "technique": c["technique"],
    })
na = [{"property_id": p, "reason": NOT_APPLICABLE.get(p, "check not built yet in this round; see DESIGN.md section 3 for the plan")} for p in ALL if p not in CHECKS]
m = {
    "version": 1,
    "setup_cmd": "bash tools/setup.sh",
    "hooks": {"guard": "MATID_VERIF", "enable": "no source hooks: checks import /repo's working tree directly (editable install) and set MATID_VERIF=1 only as a marker; C++ changes are picked up by rebuilding matid/ext/*.cpp against cppshim/",
              "baseline_off_cmd": "cd /repo && /venv/bin/python -m pytest -ra -q -p no:cacheprovider --timeout=900 --continue-on-collection-errors tests",
              "source_commits": HOOK_COMMITS, "add_only": True},
    "engines": [
        {"name": "hypothesis-sharded", "path": "vlib/run.py", "serves_properties": [c["property_id"] for c in checks],
         "kind_free_text": "Hypothesis 6.168 strategies -> JSON descriptors -> independent oracle per case; 16 worker processes seeded from VERIF_SEED; collect-then-shrink; regress tier of committed shrunk failures replayed first"},
        {"name": "cppshim", "path": "cppshim/", "serves_properties": ["C10", "C16"], "kind_free_text": "pybind11-free rebuild of matid/ext/{geometry,celllist}.cpp when the sources differ from the pinned ones"},
    ],
    "checks": checks,
    "not_applicable": na,
    "notes": NOTES,
}
json.dump(m, open(V + "/MANIFEST.json", "w"), indent=1)
print("MANIFEST.json: %d checks, %d not claimed" % (len(checks), len(na)))
