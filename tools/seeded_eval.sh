#!/bin/bash
# usage: tools/seeded_eval.sh <seeded-dir> [tier] [props...]   - applies seeded/<dir>/patch.diff to /repo, runs the checks, undoes it.
set -u
d="/verif/seeded/$1"; tier="${2:-quick}"; shift; shift || true
props="$@"
[ -z "$props" ] && props=$(python3 -c "import json;print(' '.join(json.load(open('$d/meta.json'))['run_checks']))")
git -C /repo diff --quiet || { echo "/repo has uncommitted changes; refusing"; exit 2; }
git -C /repo apply "$d/patch.diff" || { echo "patch does not apply"; exit 2; }
for p in $props; do
  out=$(cd /verif && ./check $p --tier $tier 2>&1 | grep -v "^WARNING")
  rc=$(echo "$out" | grep -c "^VIOLATION")
  echo "== $1 $p $tier: $( [ $rc -gt 0 ] && echo CAUGHT || echo missed ) :: $(echo "$out" | grep '^FAIL' | head -2 | cut -c1-200 | tr '\n' '|') $(echo "$out" | tail -1 | cut -c1-160)"
done
git -C /repo checkout -- .
