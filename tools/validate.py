#!/usr/bin/env python3
"""Validate MANIFEST.json and every evidence file against the schemas (run with python3-vt, which has jsonschema)."""
import glob, json, sys
import jsonschema
ok = True
m = json.load(open("/verif/MANIFEST.json")); jsonschema.validate(m, json.load(open("/root/.vp/MANIFEST.schema.json")))
es = json.load(open("/root/.vp/EVIDENCE.schema.json"))
ids = [json.loads(l)["id"] for l in open("/verif/properties.jsonl")]
claimed = [c["property_id"] for c in m["checks"]]; na = [x["property_id"] for x in m.get("not_applicable", [])]
for i in ids:
    if (i in claimed) == (i in na):
        print("property", i, "must be either claimed or not_applicable"); ok = False
for c in m["checks"]:
    try:
        jsonschema.validate(json.load(open("/verif/" + c["evidence_file"].replace("/verif/", ""))), es)
    except Exception as e:
        print("evidence", c["property_id"], "INVALID:", str(e)[:200]); ok = False
print("manifest ok; %d checks, %d n/a; evidence %s" % (len(claimed), len(na), "ok" if ok else "PROBLEMS"))
sys.exit(0 if ok else 1)
