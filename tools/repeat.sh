#!/bin/bash
# usage: tools/repeat.sh "<seeds>" <props...>   - runs quick checks in fresh processes at several VERIF_SEED values; all must be silent.
seeds="$1"; shift
cd /verif
for p in "$@"; do
  for s in $seeds; do
    out=$(VERIF_SEED=$s ./check $p --tier quick 2>&1 | grep -v "^WARNING")
    rc=$?
    v=$(echo "$out" | grep -c "^VIOLATION"); h=$(echo "$out" | grep -c "HARNESS-ERROR")
    echo "$p seed=$s violations=$v harness_errors=$h :: $(echo "$out" | tail -1 | cut -c1-150)"
    [ $v -gt 0 ] && echo "$out" | grep "^FAIL" | head -3 | cut -c1-250
  done
done
