#!/bin/bash
# Regenerates every evidence file from the registered quick commands on the CLEAN /repo tree, then validates.
cd /verif
git -C /repo diff --quiet || { echo "/repo has uncommitted changes: evidence must come from the unchanged tree"; exit 2; }
fail=0
for p in $(python3 -c "import json;print(' '.join(c['property_id'] for c in json.load(open('MANIFEST.json'))['checks']))"); do
  out=$(./check $p --tier quick 2>&1 | grep -v "^WARNING"); rc=$?
  v=$(echo "$out" | grep -c "^VIOLATION"); h=$(echo "$out" | grep -c "HARNESS")
  echo "$p violations=$v harness=$h :: $(echo "$out" | tail -1 | cut -c1-140)"
  [ $v -gt 0 -o $h -gt 0 ] && fail=1
  echo "$out" | tail -1 | grep -q "quick seed=" || { echo "  $p: NO SUMMARY LINE (crash?)"; fail=1; }
done
python3-vt tools/validate.py || fail=1
exit $fail
