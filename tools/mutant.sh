#!/bin/bash
# usage: tools/mutant.sh <name> <patch-file | -e 'sed-expr' file> -- <check args...>
# Creates a scratch worktree of /repo under /tmp, applies the change, runs ./check with VERIF_REPO pointing at it,
# removes the worktree.  For sensitivity trials only; registered commands never set VERIF_REPO.
set -u
name="$1"; shift
wt="/tmp/vmut_${name}_$$"
git -C /repo worktree add --detach "$wt" HEAD >/dev/null 2>&1 || { echo "worktree failed"; exit 2; }
# carry uncommitted /repo changes? no: trials start from HEAD
if [ "$1" = "-e" ]; then
  sed -i -E "$2" "$wt/$3" ; shift 3
else
  git -C "$wt" apply "$1" || { echo "patch failed"; git -C /repo worktree remove --force "$wt"; exit 2; }; shift
fi
[ "$1" = "--" ] && shift
( cd "$wt" && git diff --stat | tail -1 )
if [ "${RUN_TESTS:-0}" = "1" ]; then
  cp /repo/matid/ext.*.so "$wt/matid/" 2>/dev/null
  ( cd "$wt" && PYTHONPATH="$wt" /venv/bin/python -m pytest -q -x -p no:cacheprovider tests 2>&1 | tail -2 )
fi
VERIF_REPO="$wt" /verif/check "$@"
rc=$?
git -C /repo worktree remove --force "$wt"
echo "mutant $name -> check exit $rc"
exit $rc
