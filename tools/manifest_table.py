HOOK_COMMITS = []
NOT_APPLICABLE = {}
NOTES = ("Every check: ./check <ID> --tier quick|thorough; exit 0 held / 1 VIOLATION line / 2 harness error. "
         "Known findings live in known_findings.json; regress/<ID>/*.json are committed shrunk failures replayed first.")
reg("C10", "property-based differential test against an independent exact minimum-image oracle (Hypothesis, 16 shards)",
    "Random search over cells (orthogonal, triclinic, unimodularly sheared, needle, rotated, left-handed) x pbc x positions x cutoff; every table entry is checked for soundness (genuine image, norm, (anti)symmetry, never shorter than the true minimum image) and completeness/exactness within the promised range against an oracle that shares no code with MatID. Exploration, not proof: absence is only claimed for the explored family.",
    "Trusted: ASE minkowski_reduce (self-checked against brute-force lattice sums each run), numpy; matid/ext/ext.cpp binding layer is not rebuilt (no pybind11 in the sandbox) - geometry.cpp/celllist.cpp are rebuilt through cppshim when they differ from the pinned sources.")
