HOOK_COMMITS = []
NOT_APPLICABLE = {}
NOTES = ("Every check: ./check <ID> --tier quick|thorough; exit 0 held / 1 VIOLATION line / 2 harness error. "
         "Known findings live in known_findings.json; regress/<ID>/*.json are committed shrunk failures replayed first.")
reg("C10", "property-based differential test against an independent exact minimum-image oracle (Hypothesis, 16 shards)",
    "Random search over cells (orthogonal, triclinic, unimodularly sheared, needle, rotated, left-handed) x pbc x positions x cutoff; every table entry is checked for soundness (genuine image, norm, (anti)symmetry, never shorter than the true minimum image) and completeness/exactness within the promised range against an oracle that shares no code with MatID. Exploration, not proof: absence is only claimed for the explored family.",
    "Trusted: ASE minkowski_reduce (self-checked against brute-force lattice sums each run), numpy; matid/ext/ext.cpp binding layer is not rebuilt (no pybind11 in the sandbox) - geometry.cpp/celllist.cpp are rebuilt through cppshim when they differ from the pinned sources.")
reg("C16", "property-based test against brute-force image enumeration (Hypothesis, 16 shards)",
    "Random search over cells (incl. zeroed non-periodic vectors), pbc, extension/cutoff in both orders and query points; the extended system is checked entry by entry (original first, integer offsets, exact positions, no duplicates) and for completeness against a brute-force set of all images within the extension of the cell; neighbour queries and get_matches/get_matches_simple are compared with an exact nearest-image oracle. Exploration of the stated family only.",
    "Trusted: scipy BVLS for point-to-parallelepiped distance (bracketed by analytic bounds), ASE minkowski_reduce (self-checked); boundary cases within 1e-7 are not judged; ext.cpp binding layer not rebuilt.")
reg("C19", "exhaustive table enumeration + property-based differential test (preset vs. per-atom array)",
    "All 103 x 3 preset entries are compared with the documented ASE tables (exhaustive); random structures mixing elements with and without vdW radii check that get_dimensionality and SBC give identical results for a preset and for the same numbers passed as a custom array, and that custom arrays come back unchanged.",
    "Trusted: ase.data tables as the documented reference. The Classifier stores but never uses its radii argument (observation recorded in DESIGN.md, outside the statement's differential clause).")
reg("C20", "property-based round-trip / metamorphic / reference-model test (Hypothesis, 16 shards)",
    "Random cells, pbc, atoms inside or outside the cell: round trips of to_scaled/to_cartesian, integer-only wrapping, invariants of get_minimized_cell, swap_basis, complete_cell, translation/lattice-shift metamorphic relations and an independent weighted circular mean for the centre of mass, independent inertia tensor for get_moments_of_inertia.",
    "Float tolerances scale with cond(cell) and are stated per clause; ill-conditioned circular means (resultant < 1e-3) are not judged.")
