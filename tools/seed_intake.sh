#!/bin/bash
# usage: tools/seed_intake.sh <PID> <name> <worktree> <checks...>
# Confirms a sub-agent's seeded change in its scratch worktree (tests pass; demo fails with / passes without the change),
# stores it under seeded/<name>/ and runs the given checks against the worktree (VERIF_REPO) - /repo is not touched.
set -u
pid="$1"; name="$2"; wt="$3"; shift 3
d="/verif/seeded/$name"; mkdir -p "$d"
git -C "$wt" diff -- matid > "$d/patch.diff"
cp "$wt"/demo*.py "$d/" 2>/dev/null
cd "$wt"
t=$(PYTHONPATH="$wt" /venv/bin/python -m pytest -q -p no:cacheprovider tests 2>&1 | tail -1)
PYTHONPATH="$wt" timeout 300 /venv/bin/python demo*.py >/dev/null 2>&1; with=$?
git apply -R "$d/patch.diff"; PYTHONPATH="$wt" timeout 300 /venv/bin/python demo*.py >/dev/null 2>&1; without=$?; git apply "$d/patch.diff"   # (git stash is shared between worktrees: never use it here)
echo "tests: $t | demo with change: exit $with | without: exit $without"
res=""
for p in "$@"; do
  out=$(cd /verif && VERIF_REPO="$wt" ./check $p --tier quick 2>&1 | grep -v "^WARNING")
  c=$(echo "$out" | grep -c "^VIOLATION")
  echo "  check $p quick: $( [ $c -gt 0 ] && echo CAUGHT || echo missed ) :: $(echo "$out" | grep '^FAIL' | head -2 | cut -c1-220 | tr '\n' '|')"
  res="$res $p:$( [ $c -gt 0 ] && echo caught || echo missed )"
done
echo "$pid|$name|tests=$t|with=$with|without=$without|$res" >> /verif/seeded/intake.log
