"""Evidence writer.  Validates the few constraints of EVIDENCE.schema.json that matter for the
exploration level before writing (jsonschema is not installed in /venv; tools/validate.py uses the
tooling venv's jsonschema for a full validation)."""
import json
import os

from vlib import bootstrap

LEVELS = {"exploration", "fault_enumeration", "model_checking", "proof", "translation_validation", "other"}


def check_evidence(ev):
    for k in ("property_id", "tier", "seed", "level", "coverage", "wall_s"):
        if k not in ev:
            raise bootstrap.HarnessError("evidence lacks key %s" % k)
    if ev["tier"] not in ("quick", "thorough") or ev["level"] not in LEVELS or not isinstance(ev["seed"], int):
        raise bootstrap.HarnessError("evidence has bad tier/level/seed")
    cov = ev["coverage"]
    if ev["level"] in ("exploration", "fault_enumeration"):
        if not (isinstance(cov.get("evaluations"), int) and cov["evaluations"] >= 1):
            raise bootstrap.HarnessError("evidence: evaluations must be >= 1")
        if not (isinstance(cov.get("distinct_nontrivial"), int) and cov["distinct_nontrivial"] >= 2):
            raise bootstrap.HarnessError("evidence: distinct_nontrivial must be >= 2 (generator produced no non-trivial cases: %r)" % cov.get("distinct_nontrivial"))
        if not isinstance(cov.get("rule"), str) or not cov.get("samples"):
            raise bootstrap.HarnessError("evidence: rule / samples missing")


def write_evidence(pid, ev, strict=True):
    try:
        check_evidence(ev)
    except bootstrap.HarnessError:
        if strict:
            raise
    d = os.path.join(bootstrap.VERIF, "evidence")
    os.makedirs(d, exist_ok=True)
    tmp = os.path.join(d, pid + ".json.tmp")
    with open(tmp, "w") as f:
        json.dump(ev, f, indent=1, allow_nan=False, default=str)
    os.replace(tmp, os.path.join(d, pid + ".json"))
