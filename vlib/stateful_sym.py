"""Hypothesis rule-based state machine over ONE SymmetryAnalyzer object (extra engine of C12).

State: a pool of 2-3 generated crystals, one analyser, the index of the crystal it currently holds.
Rules: call any of the nine cached getters; set_system(crystal k) with a new Atoms object; set_system after modifying the
SAME Atoms object in place; reset().  After every getter call the result must equal what a fresh analyser returns for
the crystal currently held (model = fresh analyser, computed once per crystal).
The machine logs its steps; the log of the minimal failing run is the replay file.
"""
import json
import os
import sys
import traceback

from vlib import bootstrap

# scalar summaries first: Hypothesis favours small indices, and these are the getters whose stale values are cheapest to expose
GETTERS = ["get_is_chiral", "get_wyckoff_letters_original", "get_wyckoff_sets_conventional:params", "get_space_group_number", "get_material_id",
           "get_conventional_system", "get_primitive_system", "get_wyckoff_letters_primitive", "get_wyckoff_letters_conventional",
           "get_equivalent_atoms_original", "get_equivalent_atoms_primitive", "get_equivalent_atoms_conventional", "get_wyckoff_sets_conventional",
           "get_has_free_wyckoff_parameters", "get_crystal_system", "get_bravais_lattice", "get_point_group", "get_hall_number", "get_hall_symbol",
           "get_space_group_international_short"]
LAST = {"log": None, "msg": None}


def _fetch(an, name):
    if name == "get_wyckoff_sets_conventional:params":
        return an.get_wyckoff_sets_conventional(True)
    f = getattr(an, name)
    return f(False) if name == "get_wyckoff_sets_conventional" else f()


def _norm(name, v):
    import numpy as np
    if name.endswith("_system"):
        return (np.round(np.asarray(v.get_cell()), 8).tolist(), np.round(v.get_positions(), 8).tolist(), v.get_atomic_numbers().tolist())
    if name == "get_wyckoff_sets_conventional":
        return sorted((s.wyckoff_letter, s.element, tuple(int(i) for i in s.indices)) for s in v)
    if name == "get_wyckoff_sets_conventional:params":
        r = lambda x: None if x is None else round(float(x), 6)
        return sorted((s.wyckoff_letter, s.element, tuple(int(i) for i in s.indices), r(s.x), r(s.y), r(s.z)) for s in v)
    if name in ("get_space_group_number", "get_is_chiral", "get_material_id", "get_has_free_wyckoff_parameters", "get_crystal_system", "get_bravais_lattice",
                "get_point_group", "get_hall_number", "get_hall_symbol", "get_space_group_international_short"):
        return v if not hasattr(v, "item") else v.item()
    return [str(x) for x in np.asarray(v).tolist()]


def build_pool(descs):
    from vlib.gen import crystals as gx
    pool = []
    for d in descs:
        cell, frac, nums, status = gx.conditioned(d["crystal"])
        if status != "ok":
            continue
        c2, pos, n2 = gx.apply_presentation(cell, frac, nums, d["pres"])
        if gx.well_conditioned(c2, pos, n2) is None:
            continue
        pool.append(gx.make_atoms(c2, pos, n2))
    return pool


def execute(log, raise_on_fail=True):
    """Run a logged history without Hypothesis.  Returns None or a failure message."""
    from matid.symmetry import SymmetryAnalyzer
    pool = build_pool(log["crystals"])
    if not pool:
        return None
    refs = {}

    def safe(an_, name):
        try:
            return _norm(name, _fetch(an_, name))
        except Exception as e:      # an exception is an answer too: the history must then raise the same one
            return "raises %s" % type(e).__name__

    def ref(k, name):
        if (k, name) not in refs:
            refs[(k, name)] = safe(SymmetryAnalyzer(pool[k], symmetry_tol=1e-3), name)
        return refs[(k, name)]
    cur = 0
    live = pool[0].copy()
    an = SymmetryAnalyzer(live, symmetry_tol=1e-3)
    for step in log["steps"]:
        op = step[0]
        if op == "get":
            name = GETTERS[step[1] % len(GETTERS)]
            got = safe(an, name)
            if got != ref(cur, name):
                return "after history %s: %s differs from what a fresh analyser returns for the crystal currently held (#%d)" % (log["steps"], name, cur)
        elif op == "set":
            cur = step[1] % len(pool)
            live = pool[cur].copy()
            an.set_system(live)
        elif op == "set_inplace":
            cur = step[1] % len(pool)
            del live[list(range(len(live)))]
            live.extend(pool[cur])
            live.set_cell(pool[cur].get_cell(), scale_atoms=False)
            live.set_pbc(True)
            an.set_system(live)
        elif op == "reset":
            an.reset()
    return None


def _worker(args):
    seed, n_examples = args
    try:
        bootstrap.setup()
        from hypothesis import HealthCheck, Verbosity, seed as hseed, settings, strategies as st
        from hypothesis.stateful import RuleBasedStateMachine, initialize, rule, run_state_machine_as_test
        from vlib.gen import crystals as gx
        from vlib.props import symcommon as sc

        class AnalyzerMachine(RuleBasedStateMachine):
            def __init__(self):
                super().__init__()
                self.log = {"crystals": [], "steps": []}

            @initialize(descs=st.lists(st.fixed_dictionaries({"crystal": sc.crystal_family(), "pres": gx.presentations()}), min_size=2, max_size=3))
            def setup(self, descs):
                self.log["crystals"] = descs

            def _check(self):
                msg = execute(self.log)
                if msg:
                    LAST["log"] = json.loads(json.dumps(self.log))
                    LAST["msg"] = msg
                    raise AssertionError(msg)

            @rule(i=st.integers(0, len(GETTERS) - 1))
            def getter(self, i):
                self.log["steps"].append(["get", i])
                self._check()

            @rule(k=st.integers(0, 2))
            def set_system(self, k):
                self.log["steps"].append(["set", k])

            @rule(k=st.integers(0, 2))
            def set_system_inplace(self, k):
                self.log["steps"].append(["set_inplace", k])

            @rule()
            def reset(self):
                self.log["steps"].append(["reset"])

        counts = {"examples": 0, "steps": 0}
        orig_check = AnalyzerMachine._check

        def counting(self):
            counts["steps"] += 1
            return orig_check(self)
        AnalyzerMachine._check = counting
        st_ = settings(max_examples=n_examples, stateful_step_count=14, deadline=None, database=None, suppress_health_check=list(HealthCheck), verbosity=Verbosity.quiet)
        try:
            run_state_machine_as_test(hseed(seed)(AnalyzerMachine), settings=st_)
        except AssertionError:
            return {"ok": True, "fail": dict(LAST), "getter_checks": counts["steps"]}
        return {"ok": True, "fail": None, "getter_checks": counts["steps"]}
    except BaseException as e:
        return {"ok": False, "error": "".join(traceback.format_exception(type(e), e, e.__traceback__))[-3000:]}


def campaign(pid, seed, n_examples_per_worker, workers=16):
    """Returns (failures, coverage)."""
    from vlib import procpool
    res = procpool.run_all(_worker, [(seed * 7919 + k, n_examples_per_worker) for k in range(workers)], workers=workers)
    errs = [r.get("error", "worker process ended: %r" % r) for r in res if not r["ok"]]
    if errs:
        raise bootstrap.HarnessError("state machine worker failed:\n" + errs[0])
    failures = []
    for r in res:
        if r["fail"] and r["fail"]["log"] is not None and not failures:
            d = os.path.join(bootstrap.VERIF, "replays", pid)
            os.makedirs(d, exist_ok=True)
            path = os.path.join(d, "statemachine_%d.json" % seed)
            with open(path, "w") as f:
                json.dump({"property": pid, "clause": "history-independent", "statemachine": r["fail"]["log"], "observed": r["fail"]["msg"]}, f, indent=1)
            failures.append({"key": "statemachine:history-independent", "clause": "history-independent", "msg": r["fail"]["msg"], "path": path})
    cov = {"statemachine_runs": n_examples_per_worker * workers, "statemachine_getter_checks": sum(r["getter_checks"] for r in res),
           "statemachine_rules": ["getter(20 getters incl. Wyckoff sets with and without parameters, crystal system, Bravais lattice, point group, Hall number/symbol)", "set_system(new object)", "set_system(same object modified in place)", "reset"]}
    return failures, cov
