"""Run one function per argument tuple in separate (spawned) processes and survive the death of any of them.

multiprocessing.Pool.map never returns when a worker process is killed (segfault in an extension module, OOM kill, abort):
the task is lost and the pool just starts a replacement.  Here every task is its own process; the parent polls, collects the
result from a pipe, and reports a task whose process ended without delivering one as {"died": exitcode}."""
import multiprocessing as mp
import time


def _entry(conn, fn, arg):
    try:
        res = fn(arg)
    except BaseException as e:        # the functions used here catch their own exceptions; this is a last resort
        import traceback
        res = {"ok": False, "error": "".join(traceback.format_exception(type(e), e, e.__traceback__))[-3000:]}
    try:
        conn.send(res)
    finally:
        conn.close()


def run_all(fn, args, workers=16, timeout_s=None):
    """Returns a list of results in the order of args; a dead process gives {"ok": False, "died": exitcode}, a timed-out one
    {"ok": False, "timeout": True} (and is killed)."""
    ctx = mp.get_context("spawn")
    pending = list(enumerate(args))
    running = {}
    results = [None] * len(args)
    t0 = time.time()
    while pending or running:
        while pending and len(running) < workers:
            i, a = pending.pop(0)
            pr, pw = ctx.Pipe(duplex=False)
            p = ctx.Process(target=_entry, args=(pw, fn, a))
            p.start()
            pw.close()
            running[i] = (p, pr)
        done = []
        for i, (p, pr) in running.items():
            if pr.poll(0):
                try:
                    results[i] = pr.recv()
                except (EOFError, OSError):
                    p.join(5)
                    results[i] = {"ok": False, "died": p.exitcode}
                p.join(30)
                done.append(i)
            elif not p.is_alive():
                # ended without a result (a result sent just before exit is caught by the poll of the next round)
                if pr.poll(0.2):
                    continue
                results[i] = {"ok": False, "died": p.exitcode}
                done.append(i)
            elif timeout_s is not None and time.time() - t0 > timeout_s:
                p.kill()
                p.join(5)
                results[i] = {"ok": False, "timeout": True}
                done.append(i)
        for i in done:
            running.pop(i)
        if not done:
            time.sleep(0.2)
    return results
