"""Small shared types: the outcome of one generated case, canonical hashing of descriptors."""
import hashlib
import json
import traceback

import numpy as np


def _default(o):
    if isinstance(o, np.ndarray):
        return o.tolist()
    if isinstance(o, (np.floating,)):
        return float(o)
    if isinstance(o, (np.integer,)):
        return int(o)
    if isinstance(o, (np.bool_,)):
        return bool(o)
    if isinstance(o, (set, frozenset)):
        return sorted(o)
    if isinstance(o, tuple):
        return list(o)
    return repr(o)


def canon(desc):
    return json.dumps(desc, sort_keys=True, default=_default, allow_nan=True)


def dhash(desc):
    return hashlib.sha1(canon(desc).encode()).hexdigest()[:16]


def jsonable(x):
    return json.loads(json.dumps(x, default=_default, allow_nan=True))


class Outcome:
    """What a property module reports for one descriptor."""

    __slots__ = ("failures", "classes", "nontrivial", "discard", "info")

    def __init__(self):
        self.failures = []   # list of {clause, key, msg, ...}
        self.classes = []    # generator/behaviour labels for the histogram
        self.nontrivial = False
        self.discard = None  # reason string: case not judged (ambiguous / precondition / oracle-inconclusive)
        self.info = {}

    def fail(self, clause, msg="", key=None, **extra):
        f = {"clause": clause, "key": key or clause, "msg": str(msg)[:600]}
        if extra:
            f["extra"] = jsonable(extra)
        self.failures.append(f)
        return self

    def cls(self, *labels):
        self.classes.extend(str(l) for l in labels)
        return self


def innermost_matid_frame(exc):
    """('file.py', 'function') of the innermost traceback frame that lies inside the matid package."""
    tb = traceback.extract_tb(exc.__traceback__)
    hit = None
    for fr in tb:
        fn = fr.filename.replace("\\", "/")
        if "/matid/" in fn and "/vlib/" not in fn:
            hit = (fn.split("/matid/")[-1], fr.name)
    return hit or ("?", "?")


def exc_key(exc):
    f = innermost_matid_frame(exc)
    return "%s@%s:%s" % (type(exc).__name__, f[0], f[1])


def call(fn, *a, **k):
    """Run code under test; returns (True, value) or (False, exception)."""
    try:
        return True, fn(*a, **k)
    except Exception as e:  # noqa: BLE001 - the property decides whether an exception is a violation
        return False, e
