"""Worker process: drives Hypothesis over one shard of a property's case space.

Modes
  collect : generate cases, run the property oracle on each, *record* disagreements (never raise, so that
            generation continues past shallow defects), write counters / samples / failure buckets as JSON.
  shrink  : re-run the same deterministic generation, raise on the first case whose failure key equals the
            target bucket and let Hypothesis shrink it under an evaluation budget; write the minimal descriptor.
"""
import argparse
import collections
import importlib
import json
import os
import sys
import time
import traceback

from vlib import bootstrap


def _settings(n, shrink):
    from hypothesis import HealthCheck, Phase, Verbosity, settings
    phases = (Phase.generate, Phase.shrink) if shrink else (Phase.generate,)
    return settings(max_examples=max(1, n), phases=phases, database=None, deadline=None, derandomize=False,
                    report_multiple_bugs=False, suppress_health_check=list(HealthCheck), verbosity=Verbosity.quiet)


class _Target(Exception):
    pass


class Collector:
    def __init__(self, mod, tier, out_prefix, deadline):
        self.mod = mod
        self.tier = tier
        self.deadline = deadline
        self.n_run = 0
        self.n_generated = 0
        self.n_skipped_budget = 0
        self.discards = collections.Counter()
        self.classes = collections.Counter()
        self.nontrivial = set()
        self.seen = set()
        self.samples = []
        self.failures = {}
        self.cur_fd = os.open(out_prefix + ".current", os.O_RDWR | os.O_CREAT | os.O_TRUNC, 0o644)
        self.t_case = 0.0
        self.cur_item = None
        self.shard = None

    def note_current(self, desc):
        from vlib.case import canon
        data = canon(desc).encode()
        os.ftruncate(self.cur_fd, 0)
        os.pwrite(self.cur_fd, data, 0)

    def run(self, desc):
        from vlib.case import dhash
        self.n_generated += 1
        if time.time() > self.deadline:
            self.n_skipped_budget += 1
            return None
        self.note_current(desc)
        t0 = time.time()
        out = self.mod.run_case(desc)
        self.t_case += time.time() - t0
        h = dhash(desc)
        if out.discard:
            self.discards[out.discard] += 1
            for c in out.classes:
                self.classes[c] += 1
            return out
        self.n_run += 1
        self.seen.add(h)
        for c in out.classes:
            self.classes[c] += 1
        if out.nontrivial:
            if h not in self.nontrivial and len(self.samples) < 3:
                self.samples.append(desc)
            self.nontrivial.add(h)
        for f in out.failures:
            b = self.failures.setdefault(f["key"], {"key": f["key"], "clause": f["clause"], "count": 0, "examples": []})
            b["count"] += 1
            if len(b["examples"]) < 2:
                b["examples"].append({"descriptor": desc, "msg": f["msg"], "extra": f.get("extra"), "item": self.cur_item, "shard": self.shard})
        return out

    def dump(self, extra=None):
        d = {"n_run": self.n_run, "n_generated": self.n_generated, "n_skipped_budget": self.n_skipped_budget,
             "discards": dict(self.discards), "classes": dict(self.classes), "nontrivial": sorted(self.nontrivial),
             "n_distinct": len(self.seen), "samples": self.samples, "failures": list(self.failures.values()),
             "t_case": self.t_case, "cpp": bootstrap.CPP_MODE}
        if extra:
            d.update(extra)
        return d


def shard_seed(seed, shard, salt=0):
    return (int(seed) * 1_000_003 + int(shard) * 7919 + int(salt) * 104_729) % (2 ** 63)


def run_collect(mod, tier, seed, shard, nshards, out_prefix):
    from hypothesis import given, seed as hseed
    plan = mod.plan(tier)
    deadline = time.time() + float(plan.get("time_s", 1e9))
    col = Collector(mod, tier, out_prefix, deadline)
    col.shard = shard
    # --- enumerated part ------------------------------------------------------------------------
    items = mod.items(tier) if hasattr(mod, "items") else []
    mine = list(range(shard, len(items), nshards))
    draws = int(plan.get("item_draws", 1))
    for idx in mine:
        col.cur_item = idx
        strat = mod.item_strategy(items[idx], tier)

        def body(desc):
            col.run(desc)
        test = hseed(shard_seed(seed, 0, idx + 1))(_settings(draws, False)(given(strat)(body)))
        test()
    # --- random part ----------------------------------------------------------------------------
    col.cur_item = None
    n = int(plan.get("n_random", 0))
    n_mine = n // nshards + (1 if shard < n % nshards else 0)
    if n_mine > 0:
        strat = mod.strategy(tier)

        def body(desc):
            col.run(desc)
        test = hseed(shard_seed(seed, shard))(_settings(n_mine, False)(given(strat)(body)))
        test()
    extra = {}
    if hasattr(mod, "shard_extra"):
        extra["prop_extra"] = mod.shard_extra()
    return col.dump(extra)


def run_shrink(mod, tier, seed, shard, nshards, out_prefix, target_key, item_idx, budget):
    """Deterministically re-find the first case with failure key == target_key and shrink it."""
    from hypothesis import given, seed as hseed
    from vlib.case import dhash
    plan = mod.plan(tier)
    state = {"best": None, "best_msg": None, "evals_after": 0, "found": False}

    def body(desc):
        out = mod.run_case(desc)
        if out.discard:
            return
        hit = [f for f in out.failures if f["key"] == target_key]
        if not hit:
            return
        if state["found"]:
            state["evals_after"] += 1
            if state["evals_after"] > budget and dhash(desc) != dhash(state["best"]):
                return
        state["found"] = True
        state["best"] = desc
        state["best_msg"] = hit[0]
        raise _Target()

    if item_idx is not None:
        items = mod.items(tier)
        strat = mod.item_strategy(items[item_idx], tier)
        test = hseed(shard_seed(seed, 0, item_idx + 1))(_settings(int(plan.get("item_draws", 1)), True)(given(strat)(body)))
    else:
        n = int(plan.get("n_random", 0))
        n_mine = n // nshards + (1 if shard < n % nshards else 0)
        strat = mod.strategy(tier)
        test = hseed(shard_seed(seed, shard))(_settings(n_mine, True)(given(strat)(body)))
    try:
        test()
    except _Target:
        pass
    except BaseException as e:  # hypothesis may wrap (Flaky etc.): keep the best we saw
        state["note"] = "%s: %s" % (type(e).__name__, str(e)[:200])
    return state


def main(argv=None):
    ap = argparse.ArgumentParser()
    ap.add_argument("--prop", required=True)
    ap.add_argument("--tier", default="quick")
    ap.add_argument("--seed", type=int, default=1)
    ap.add_argument("--shard", type=int, default=0)
    ap.add_argument("--nshards", type=int, default=1)
    ap.add_argument("--out", required=True)
    ap.add_argument("--mode", default="collect")
    ap.add_argument("--target")
    ap.add_argument("--item", type=int, default=None)
    ap.add_argument("--budget", type=int, default=200)
    a = ap.parse_args(argv)
    res = {}
    try:
        import resource
        lim = int(float(os.environ.get("VERIF_WORKER_MEM_GB", "3.5")) * (1 << 30))
        resource.setrlimit(resource.RLIMIT_AS, (lim, lim))   # runaway allocations in the code under test fail instead of thrashing
        bootstrap.setup()
        mod = importlib.import_module("vlib.props." + a.prop.lower())
        if a.mode == "collect":
            res = run_collect(mod, a.tier, a.seed, a.shard, a.nshards, a.out)
        else:
            res = run_shrink(mod, a.tier, a.seed, a.shard, a.nshards, a.out, a.target, a.item, a.budget)
        res["ok"] = True
    except BaseException as e:  # harness error: reported as such, never as a violation
        res = {"ok": False, "error": "".join(traceback.format_exception(type(e), e, e.__traceback__))[-6000:]}
    with open(a.out + ".json.tmp", "w") as f:
        json.dump(res, f, default=lambda o: __import__("vlib.case", fromlist=["x"])._default(o))
    os.replace(a.out + ".json.tmp", a.out + ".json")
    return 0 if res.get("ok") else 2


if __name__ == "__main__":
    sys.exit(main())
