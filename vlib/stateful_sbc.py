"""Hypothesis rule-based state machines over ONE SBC object (extra engine of C01) and ONE Classifier object (extra engine
of C17).  State: a pool of 2 generated structures and 2-3 generated parameter sets; rules: run the shared object on
(structure k, parameters j).  Model: a fresh object called with the same arguments - the result of a call must be a function of
its arguments only, whatever the object did before.  The step log of the minimal failing run is the replay file."""
import json
import os
import traceback

from vlib import bootstrap

LAST = {"log": None, "msg": None}


def _sbc_sig(cl):
    out = []
    for c in cl:
        try:
            d = c.get_dimensionality()
        except Exception as e:
            d = "raises %s" % type(e).__name__
        cell = c.get_cell()
        out.append((sorted(int(i) for i in c.indices), sorted(int(z) for z in c.species), d, None if cell is None else len(cell)))
    return sorted(out, key=lambda x: x[0])


def _structures(log):
    """the generated structures plus, for the first one, a permuted copy and a slightly rattled copy: SAME cell, SAME atom
    count, other positions / atom order (what a cache keyed on too little would confuse)"""
    import numpy as np
    from vlib.gen import messy
    pool = [messy.build(d) for d in log["structures"]]
    s0 = pool[0]
    r = np.random.RandomState(12345 + len(s0))
    pool.append(s0[r.permutation(len(s0))])
    s3 = s0.copy()
    s3.set_positions(s3.get_positions() + r.normal(scale=0.05, size=(len(s0), 3)))
    pool.append(s3)
    return pool


class Runner:
    """Executes steps of a history one at a time on a shared object, comparing with fresh objects."""

    def __init__(self, log):
        self.log = log
        self.kind = log["kind"]
        self.pool = _structures(log)
        self.params = log["params"]
        self.refs = {}
        self.shared = self.fresh()
        self.done = []

    def fresh(self):
        if self.kind == "sbc":
            from matid.clustering import SBC
            return SBC()
        from matid.classification.classifier import Classifier
        ctor = dict(self.log.get("ctor", {}))
        if ctor.pop("pos_tol_array", False):
            import numpy as np
            ctor["pos_tol"] = np.array([float(ctor["pos_tol"])])
        return Classifier(**ctor)

    def run(self, obj, k, j):
        import numpy as np
        from vlib.props import c01
        s = self.pool[k % len(self.pool)]
        p = self.params[j % len(self.params)]
        from vlib.gen import messy
        if messy.too_skewed(s):
            return "skip"
        try:
            if self.kind == "sbc":
                rarg, rad = c01.radii_for(p, s.get_atomic_numbers())
                if np.isnan(rad).any():
                    return "skip"
                return _sbc_sig(c01.run_sbc(s, p, rarg, obj)[1])
            r = obj.classify(s)
            sig = [type(r).__name__]
            if hasattr(r, "region"):
                sig.append(sorted(int(i) for i in r.basis_indices))
            return sig
        except Exception as e:
            return "raises %s" % type(e).__name__

    def step(self, k, j):
        self.done.append([k, j])
        got = self.run(self.shared, k, j)
        key = (k % len(self.pool), j % len(self.params))
        if key not in self.refs:
            self.refs[key] = self.run(self.fresh(), k, j)
        if got != self.refs[key]:
            return "after history %s on one %s object: call (structure %d, parameters %d) gives %s, a fresh object gives %s" % (
                self.done, "SBC" if self.kind == "sbc" else "Classifier", key[0], key[1], str(got)[:200], str(self.refs[key])[:200])
        return None


def execute(log):
    """Replays a logged history; returns None or a failure message."""
    r = Runner(log)
    for k, j in log["steps"]:
        msg = r.step(k, j)
        if msg:
            return msg
    return None


def _worker(args):
    kind, seed, n_examples, current_path = args
    try:
        bootstrap.setup()
        from hypothesis import HealthCheck, Verbosity, seed as hseed, settings, strategies as st
        from hypothesis.stateful import RuleBasedStateMachine, initialize, rule, run_state_machine_as_test
        from vlib.gen import cells as gc
        from vlib.gen import messy
        from vlib.props import c01

        counts = {"calls": 0}

        class Machine(RuleBasedStateMachine):
            def __init__(self):
                super().__init__()
                self.log = {"kind": kind, "structures": [], "params": [], "steps": [], "ctor": {}}

            @initialize(ss=st.lists(messy.structures(max_atoms=60, full_rank_only=(kind != "sbc"), allow_zero_periodic=False, slab_bias=(kind != "sbc")), min_size=2, max_size=2),
                        ps=st.lists(c01.params(), min_size=2, max_size=3),
                        ctor=st.one_of(st.just({}), st.fixed_dictionaries({"pos_tol": gc.ffloat(0.1, 0.9), "max_cell_size": gc.ffloat(4.0, 14.0), "pos_tol_array": st.booleans()})))
            def setup(self, ss, ps, ctor):
                self.log["structures"] = ss
                self.log["params"] = ps
                self.log["ctor"] = ctor if kind != "sbc" else {}
                self.runner = Runner(self.log)

            @rule(k=st.integers(0, 3), j=st.integers(0, 2))
            def call(self, k, j):
                self.log["steps"].append([k, j])
                counts["calls"] += 1
                with open(current_path, "w") as f:      # what is being executed: survives the death of this process
                    json.dump(self.log, f)
                msg = self.runner.step(k, j)
                if msg:
                    LAST["log"] = json.loads(json.dumps(self.log))
                    LAST["msg"] = msg
                    raise AssertionError(msg)

        st_ = settings(max_examples=n_examples, stateful_step_count=5, deadline=None, database=None, suppress_health_check=list(HealthCheck), verbosity=Verbosity.quiet)
        try:
            run_state_machine_as_test(hseed(seed)(Machine), settings=st_)
        except AssertionError:
            return {"ok": True, "fail": dict(LAST), "calls": counts["calls"]}
        return {"ok": True, "fail": None, "calls": counts["calls"]}
    except BaseException as e:
        return {"ok": False, "error": "".join(traceback.format_exception(type(e), e, e.__traceback__))[-3000:]}


def campaign(pid, kind, seed, n_examples_per_worker, workers=16):
    from vlib import procpool
    work = os.path.join(bootstrap.VERIF, ".work", pid + "_statemachine")
    os.makedirs(work, exist_ok=True)
    cur = [os.path.join(work, "current_%s_%d_%d.json" % (kind, seed, k)) for k in range(workers)]
    for c in cur:
        if os.path.exists(c):
            os.remove(c)
    res = procpool.run_all(_worker, [(kind, seed * 7919 + k, n_examples_per_worker, cur[k]) for k in range(workers)], workers=workers)
    errs = [r["error"] for r in res if not r["ok"] and "error" in r]
    if errs:
        raise bootstrap.HarnessError("state machine worker failed:\n" + errs[0])
    failures = []
    d = os.path.join(bootstrap.VERIF, "replays", pid)
    for k, r in enumerate(res):
        if not r["ok"] and ("died" in r or "timeout" in r):
            # the process executing the history ended without an answer (killed by a signal / the memory limit): the call did
            # not return normally; the history it was executing is the replay
            log = json.load(open(cur[k])) if os.path.exists(cur[k]) else None
            if log is None:
                raise bootstrap.HarnessError("state machine worker %d ended (%s) before executing any step" % (k, r))
            os.makedirs(d, exist_ok=True)
            path = os.path.join(d, "statemachine_%s_%d_died_%d.json" % (kind, seed, k))
            what = "worker process ended with exit code %s while executing this history (last step %s)" % (r.get("died", "timeout"), None if not log else log["steps"][-1:])
            with open(path, "w") as f:
                json.dump({"property": pid, "clause": "returns-normally", "statemachine_obj": log, "observed": what}, f, indent=1)
            if not any(x["key"] == "statemachine:process-died" for x in failures):
                failures.append({"key": "statemachine:process-died", "clause": "returns-normally", "msg": what, "path": path})
    for r in res:
        if r.get("ok") and r["fail"] and r["fail"]["log"] is not None and not any(x["key"].endswith("function-of-arguments-only") for x in failures):
            os.makedirs(d, exist_ok=True)
            path = os.path.join(d, "statemachine_%s_%d.json" % (kind, seed))
            with open(path, "w") as f:
                json.dump({"property": pid, "clause": "function-of-arguments-only", "statemachine_obj": r["fail"]["log"], "observed": r["fail"]["msg"]}, f, indent=1)
            failures.append({"key": "statemachine:function-of-arguments-only", "clause": "function-of-arguments-only", "msg": r["fail"]["msg"], "path": path})
    good = [r for r in res if r.get("ok")]
    cov = {"statemachine_runs": n_examples_per_worker * workers, "statemachine_calls_checked": sum(r["calls"] for r in good),
           "statemachine_workers_died": len(res) - len(good),
           "statemachine_rules": ["call(shared %s object, structure k, parameter set j) vs fresh object" % ("SBC" if kind == "sbc" else "Classifier")]}
    return failures, cov
