"""Independent dimensionality oracle: rank of the cycle lattice of the periodic bonding graph.

Shares no code with matid: brute-force image enumeration, union-find style BFS with integer potentials,
rank over Q (numpy) and over GF(2) (bit masks).
"""
import itertools

import numpy as np

from vlib.oracles.images import completed, heights


def bonds(pos, cell, pbc, radii, thr, eps=1e-7):
    """All (i, j, k) with |r_i - r_j - k.cell| - R_i - R_j <= thr (k integer, zero on non-periodic axes).
    Positions are wrapped first (labels only matter up to a change of potentials).  Returns (edges, ambiguous)."""
    pbc = np.asarray(pbc, bool)
    cell = np.asarray(cell, float)
    pos = np.asarray(pos, float)
    radii = np.asarray(radii, float)
    n = len(pos)
    cc = completed(cell)
    frac = np.linalg.solve(cc.T, pos.T).T
    shift = np.zeros((n, 3))
    shift[:, pbc] = np.floor(frac[:, pbc])
    pw = (frac - shift) @ cc
    cutoff = thr + 2 * radii.max()
    h = heights(cc)
    K = [int(np.ceil(cutoff / h[i])) + 1 if pbc[i] else 0 for i in range(3)]
    offs = np.array(list(itertools.product(*[range(-k, k + 1) for k in K])), int)
    vec = offs @ cc
    zero = (offs == 0).all(axis=1)
    edges = []
    amb = False
    for i in range(n):
        d = pw[i][None, None, :] - pw[:, None, :] - vec[None, :, :]          # (n, noffs, 3)
        l = np.linalg.norm(d, axis=2) - radii[i] - radii[:, None]
        l[i, zero] = np.inf
        if (np.abs(l - thr) < eps).any():
            amb = True
        js, os_ = np.where(l <= thr)
        for j, o in zip(js, os_):
            edges.append((i, int(j), tuple(int(x) for x in offs[o])))
    return edges, amb


def rank_q(vectors):
    if not vectors:
        return 0
    return int(np.linalg.matrix_rank(np.array(vectors, float)))


def rank_gf2(vectors):
    basis = []
    for v in vectors:
        x = 0
        for c in v:
            x = (x << 1) | (int(c) & 1)
        for b in basis:
            x = min(x, x ^ b)
        if x:
            basis.append(x)
    return len(basis)


def dimensionality(pos, cell, pbc, radii, thr, eps=1e-7):
    """(rank over Q or None if disconnected, rank over GF(2), ambiguous flag, number of components)."""
    n = len(pos)
    edges, amb = bonds(pos, cell, pbc, radii, thr, eps)
    adj = {i: [] for i in range(n)}
    for i, j, o in edges:
        adj[i].append((j, np.array(o)))
    comp = [-1] * n
    phi = [None] * n
    ncomp = 0
    for s in range(n):
        if comp[s] != -1:
            continue
        comp[s] = ncomp
        phi[s] = np.zeros(3, int)
        st = [s]
        while st:
            u = st.pop()
            for v, o in adj[u]:
                if comp[v] == -1:
                    comp[v] = ncomp
                    phi[v] = phi[u] + o
                    st.append(v)
        ncomp += 1
    if ncomp > 1:
        return None, None, amb, ncomp
    cyc = set()
    for i, j, o in edges:
        c = phi[i] + np.array(o) - phi[j]
        if c.any():
            cyc.add(tuple(int(x) for x in c))
    cyc = sorted(cyc)
    return rank_q(cyc), rank_gf2(cyc), amb, 1
