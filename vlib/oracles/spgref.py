"""Reference facts about the 230 space groups taken from spglib's Hall-symbol database and the number ranges of the
International Tables.  Nothing here imports matid."""
import functools
import itertools

import numpy as np
import spglib


@functools.lru_cache(maxsize=None)
def std_hall_numbers():
    """Standard setting = lowest Hall number of each space-group type (origin choice 1, unique axis b, hexagonal axes)."""
    first = {}
    for h in range(1, 531):
        t = spglib.get_spacegroup_type(h)
        first.setdefault(int(t.number), h)
    assert sorted(first) == list(range(1, 231))
    return first


def std_hall(sg):
    return std_hall_numbers()[int(sg)]


@functools.lru_cache(maxsize=None)
def operations(sg):
    db = spglib.get_symmetry_from_database(std_hall(sg))
    return np.array(db["rotations"], int), np.array(db["translations"], float)


@functools.lru_cache(maxsize=None)
def sg_type(sg):
    return spglib.get_spacegroup_type(std_hall(sg))


def centring(sg):
    return sg_type(sg).international_short[0]


CENTRING_MULT = {"P": 1, "A": 2, "B": 2, "C": 2, "I": 2, "R": 3, "F": 4}


def crystal_system(sg):
    sg = int(sg)
    for hi, name in ((2, "triclinic"), (15, "monoclinic"), (74, "orthorhombic"), (142, "tetragonal"), (167, "trigonal"), (194, "hexagonal"), (230, "cubic")):
        if sg <= hi:
            return name
    raise ValueError(sg)


def bravais_pearson(sg):
    """Pearson symbol with merged side-centrings (A/B/C -> S), trigonal and hexagonal both 'h'."""
    fam = {"triclinic": "a", "monoclinic": "m", "orthorhombic": "o", "tetragonal": "t", "trigonal": "h", "hexagonal": "h", "cubic": "c"}[crystal_system(sg)]
    c = centring(sg)
    if c in "ABC":
        c = "S"
    return fam + c


def point_group(sg):
    return sg_type(sg).pointgroup_international


@functools.lru_cache(maxsize=None)
def sohncke():
    s = set()
    for sg in range(1, 231):
        R, _ = operations(sg)
        if all(round(np.linalg.det(r)) == 1 for r in R):
            s.add(sg)
    assert len(s) == 65
    return frozenset(s)


def lattice_cellpar(sg, raw):
    """Cell parameters respecting the crystal system of group `sg` from six raw numbers (a,b,c, alpha,beta,gamma)."""
    a, b, c, al, be, ga = raw
    cs = crystal_system(sg)
    if cs == "triclinic":
        return [a, b, c, al, be, ga]
    if cs == "monoclinic":
        return [a, b, c, 90.0, be, 90.0]
    if cs == "orthorhombic":
        return [a, b, c, 90.0, 90.0, 90.0]
    if cs == "tetragonal":
        return [a, a, c, 90.0, 90.0, 90.0]
    if cs in ("trigonal", "hexagonal"):
        return [a, a, c, 90.0, 90.0, 120.0]
    return [a, a, a, 90.0, 90.0, 90.0]


def wrapd(d):
    return d - np.rint(d)


def orbit(R, t, p, tol=1e-5):
    """Distinct images (mod 1) of fractional point p under the operations (R[k], t[k])."""
    img = (np.einsum("oij,j->oi", R, p) + t) % 1.0
    keep = []
    for q in img:
        if not any(np.abs(wrapd(q - r)).max() < tol for r in keep):
            keep.append(q)
    return np.array(keep)


def grid_stabilisers(sg, N=24):
    """For every point of the (1/N)-grid: which operations (with which integer shift) fix it.  Returns the list of
    distinct non-trivial stabiliser signatures [(op indices, integer shifts), grid point]."""
    R, t = operations(sg)
    g = np.arange(N) / N
    P = np.array(list(itertools.product(g, g, g)))
    img = np.einsum("oij,mj->omi", R, P) + t[:, None, :] - P[None, :, :]
    nint = np.rint(img)
    fixed = np.abs(img - nint).max(axis=2) < 1e-9
    order = fixed.sum(axis=0)
    seen = {}
    for m in np.where(order > 1)[0]:
        sel = np.where(fixed[:, m])[0]
        sig = (tuple(int(o) for o in sel), tuple(tuple(int(x) for x in nint[o, m, :]) for o in sel))
        if sig not in seen:
            seen[sig] = P[m]
    return [(sig, p) for sig, p in seen.items()]


def project(sg, stab, q):
    """Average q over a stabiliser [(op index, integer shift)]: a point of that Wyckoff position with generic parameters."""
    R, t = operations(sg)
    return np.mean([R[o] @ q + t[o] - np.array(n, float) for o, n in stab], axis=0)
