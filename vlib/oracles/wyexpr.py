"""Own parser / evaluator for Wyckoff coordinate expressions such as '-x+1/4', '2x', 'x-y', '1/2'."""
import re
from fractions import Fraction

_TOK = re.compile(r"[+-]?[^+-]+")
_TERM = re.compile(r"(\d+(?:/\d+)?)?([xyz])?")


def parse(expr):
    """-> (coefficients {'x':Fraction,...}, constant Fraction)"""
    s = expr.replace(" ", "")
    if not s:
        raise ValueError("empty expression")
    coef = {"x": Fraction(0), "y": Fraction(0), "z": Fraction(0)}
    const = Fraction(0)
    pos = 0
    for m in _TOK.finditer(s):
        if m.start() != pos:
            raise ValueError("cannot parse %r" % expr)
        pos = m.end()
        tk = m.group(0)
        sign = 1
        if tk[0] == "+":
            tk = tk[1:]
        elif tk[0] == "-":
            sign = -1
            tk = tk[1:]
        t = _TERM.fullmatch(tk)
        if not t or (t.group(1) is None and t.group(2) is None):
            raise ValueError("cannot parse term %r of %r" % (tk, expr))
        c = Fraction(t.group(1)) if t.group(1) else Fraction(1)
        if t.group(2):
            coef[t.group(2)] += sign * c
        else:
            const += sign * c
    if pos != len(s):
        raise ValueError("cannot parse %r" % expr)
    return coef, const


def evaluate(expr, v):
    coef, const = parse(expr)
    return float(const) + sum(float(coef[k]) * v[k] for k in "xyz")


def variables(exprs):
    out = set()
    for e in exprs:
        coef, _ = parse(e)
        out |= {k for k in "xyz" if coef[k] != 0}
    return out


def point(exprs, v):
    return [evaluate(e, v) for e in exprs]
