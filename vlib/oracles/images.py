"""Brute-force periodic images and point-to-cell distances (independent of matid)."""
import itertools

import numpy as np
from scipy.optimize import lsq_linear


def completed(cell):
    """Replace zero rows by unit vectors orthogonal to the others (only used to define heights / fractional coordinates)."""
    cell = np.array(cell, float)
    zero = [i for i in range(3) if np.linalg.norm(cell[i]) == 0]
    nz = [i for i in range(3) if i not in zero]
    if not zero:
        return cell
    if len(zero) == 3:
        return np.eye(3)
    if len(zero) == 1:
        a, b = cell[nz[0]], cell[nz[1]]
        c = np.cross(a, b)
        cell[zero[0]] = c / np.linalg.norm(c)
        return cell
    a = cell[nz[0]]
    # two missing: any orthonormal pair perpendicular to a
    t = np.eye(3)[np.argmin(np.abs(a))]
    b = np.cross(a, t); b /= np.linalg.norm(b)
    c = np.cross(a, b); c /= np.linalg.norm(c)
    cell[zero[0]], cell[zero[1]] = b, c
    return cell


def heights(cell):
    cell = np.asarray(cell, float)
    v = abs(np.linalg.det(cell))
    return np.array([v / np.linalg.norm(np.cross(cell[(i + 1) % 3], cell[(i + 2) % 3])) for i in range(3)])


def dist_to_cell(points, cell):
    """Distance from each point to the set {u @ cell : u in [0,1]^3}.  Zero rows of `cell` contribute nothing, and the
    component of the point orthogonal to the span of the non-zero rows is ignored (degenerate cells describe a prism)."""
    cell = np.asarray(cell, float)
    pts = np.atleast_2d(np.asarray(points, float))
    nzmask = np.linalg.norm(cell, axis=1) > 0
    rows = cell[nzmask]
    k = len(rows)
    if k == 0:
        return np.zeros(len(pts))
    G = np.linalg.pinv(rows)                    # (3,k)
    u = pts @ G                                 # coefficients of the projection onto the span
    proj = u @ rows
    uc = np.clip(u, 0.0, 1.0)
    upper = np.linalg.norm(uc @ rows - proj, axis=1)      # distance to a feasible point: an upper bound
    out = upper.copy()
    inside = (np.abs(u - uc) < 1e-15).all(axis=1)
    out[inside] = 0.0
    todo = np.where(~inside)[0]
    if k == 1:
        return out                               # clamping is exact on a segment
    A = rows.T
    for i in todo:
        r = lsq_linear(A, proj[i], bounds=(0.0, 1.0), method="bvls", tol=1e-13, max_iter=200)
        out[i] = min(upper[i], float(np.linalg.norm(A @ r.x - proj[i])))
    return out


def images_near_cell(pos, cell, pbc, ext, margin=1e-9):
    """All (atom index, integer offset) whose image lies within `ext - margin` of the cell, plus the list of those that
    are within margin of the boundary (ambiguous)."""
    pos = np.asarray(pos, float)
    cell = np.asarray(cell, float)
    pbc = np.asarray(pbc, bool)
    cc = completed(cell)
    h = heights(cc)
    K = [int(np.ceil(ext / h[i])) + 1 if pbc[i] else 0 for i in range(3)]
    offs = np.array(list(itertools.product(*[range(-k, k + 1) for k in K])), float)
    n = len(pos)
    # cheap lower bound first: excess of the fractional coordinate times the height
    inv = np.linalg.inv(cc)
    sure, amb = [], []
    P = (pos[None, :, :] + (offs @ cell)[:, None, :]).reshape(-1, 3)
    idx = np.tile(np.arange(n), len(offs))
    off_rep = np.repeat(offs, n, axis=0)
    u = P @ inv
    nzmask = np.linalg.norm(cell, axis=1) > 0
    exc = np.maximum(0.0, np.maximum(-u, u - 1.0)) * h[None, :]
    exc[:, ~nzmask] = 0.0
    lower = exc.max(axis=1)
    cand = np.where(lower <= ext + margin)[0]
    d = dist_to_cell(P[cand], cell)
    for c, dd in zip(cand, d):
        key = (int(idx[c]), tuple(int(x) for x in off_rep[c]))
        if dd <= ext - margin:
            sure.append(key)
        elif dd <= ext + margin:
            amb.append(key)
    return sure, amb
