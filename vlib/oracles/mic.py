"""Exact minimum-image vectors, independent of matid.

``mic(D, cell, pbc)``: for raw difference vectors D (m,3) return (vectors, integer factors n, distances,
gap to the second-nearest image) with  vector = D - n @ cell,  n == 0 on non-periodic axes.
Method: Minkowski-reduce the periodic sub-lattice (ASE), round the least-squares coefficients, search the
5^k neighbourhood.  ``mic_brute`` is the obviously-correct bounded lattice sum used to cross-check it.
"""
import itertools

import numpy as np
from ase.geometry import minkowski_reduce

_OFFS = {}


def _offsets(k, r=2):
    key = (k, r)
    if key not in _OFFS:
        _OFFS[key] = np.array(list(itertools.product(range(-r, r + 1), repeat=k)), dtype=float).reshape(-1, k)
    return _OFFS[key]


def reduced(cell, pbc):
    cell = np.asarray(cell, float)
    pbc = np.asarray(pbc, bool)
    if not pbc.any():
        return cell.copy(), np.eye(3, dtype=int)
    rcell, op = minkowski_reduce(cell, pbc)
    op = np.asarray(op)
    if not np.allclose(op @ cell, rcell, atol=1e-9 * max(1.0, np.abs(cell).max())) or abs(abs(round(np.linalg.det(op))) - 1) > 0:
        raise AssertionError("minkowski_reduce returned an inconsistent operation")
    if (op[np.ix_(pbc, ~pbc)] != 0).any():
        raise AssertionError("reduction mixed a non-periodic vector into the periodic lattice")
    return np.asarray(rcell, float), op.astype(int)


def mic(D, cell, pbc):
    D = np.atleast_2d(np.asarray(D, float))
    cell = np.asarray(cell, float)
    pbc = np.asarray(pbc, bool)
    m = len(D)
    k = int(pbc.sum())
    if k == 0:
        return D.copy(), np.zeros((m, 3), int), np.linalg.norm(D, axis=1), np.full(m, np.inf)
    rcell, op = reduced(cell, pbc)
    P = rcell[pbc]                                   # (k,3) reduced periodic basis
    coef = D @ np.linalg.pinv(P)                     # (m,k)
    n0 = np.rint(coef)
    offs = _offsets(k)                               # (q,k)
    cand = n0[:, None, :] + offs[None, :, :]         # (m,q,k)
    vec = D[:, None, :] - cand @ P                   # (m,q,3)
    dist = np.linalg.norm(vec, axis=2)
    order = np.argsort(dist, axis=1)
    best = order[:, 0]
    ar = np.arange(m)
    nred = np.zeros((m, 3))
    nred[:, pbc] = cand[ar, best]
    n = np.rint(nred @ op).astype(int)               # factors in the caller's basis
    v = D - n @ cell
    d = np.linalg.norm(v, axis=1)
    # gap to the nearest *different* image vector
    second = dist[ar, order[:, 1]] if dist.shape[1] > 1 else np.full(m, np.inf)
    return v, n, d, second - dist[ar, best]


def mic_brute(d, cell, pbc, max_points=400000):
    """Bounded exhaustive lattice sum for one difference vector; returns distance or None if too large."""
    d = np.asarray(d, float)
    cell = np.asarray(cell, float)
    pbc = np.asarray(pbc, bool)
    k = int(pbc.sum())
    if k == 0:
        return float(np.linalg.norm(d))
    P = cell[pbc]
    G = np.linalg.pinv(P)                            # (3,k): n = L @ G for lattice vectors L
    # an upper bound of the minimum: the reduced guess
    upper = mic(d, cell, pbc)[2][0]
    R = np.linalg.norm(d) + upper + 1e-9
    K = [int(np.floor(R * np.linalg.norm(G[:, i]) + 1e-9)) + 1 for i in range(k)]
    npts = 1
    for x in K:
        npts *= 2 * x + 1
    if npts > max_points:
        return None
    grids = np.array(list(itertools.product(*[range(-x, x + 1) for x in K])), float)
    return float(np.linalg.norm(d[None, :] - grids @ P, axis=1).min())


def pair_table(pos, cell, pbc):
    """Minimum-image distance table for positions pos (n,3): returns (dist (n,n), gap (n,n))."""
    pos = np.asarray(pos, float)
    n = len(pos)
    D = (pos[:, None, :] - pos[None, :, :]).reshape(-1, 3)
    v, f, d, gap = mic(D, cell, pbc)
    return v.reshape(n, n, 3), f.reshape(n, n, 3), d.reshape(n, n), gap.reshape(n, n)
