"""Are two periodic structures the same crystal up to a proper (resp. improper) Cartesian isometry plus lattice
translations?  Uses neither spglib nor matid, so it is also valid for left-handed input bases and supercells.

A, B = (cell rows (3,3), cartesian positions (n,3), atomic numbers).  Method: Minkowski-reduce B's lattice; enumerate
triples of translation vectors of crystal A (its cell lattice plus internal translations when A is a supercell) that
reproduce the Gram matrix of B's reduced basis; each triple fixes a rotation Q with det +1 or -1; try the translations
that move B's first atom of the rarest species onto each such atom of A and test that every atom of B lands on an atom
of A of the same species (equal atoms-per-volume makes this a bijection of the infinite crystals).
"""
import itertools

import numpy as np
from ase.geometry import minkowski_reduce


def _heights(c):
    v = abs(np.linalg.det(c))
    return np.array([v / np.linalg.norm(np.cross(c[(i + 1) % 3], c[(i + 2) % 3])) for i in range(3)])


def _lattice_vectors(cell, rmax):
    rc, _ = minkowski_reduce(cell)
    h = _heights(rc)
    n = [int(np.ceil(rmax / h[i])) + 1 for i in range(3)]
    ks = np.array(list(itertools.product(*[range(-m, m + 1) for m in n])))
    v = ks @ rc
    l = np.linalg.norm(v, axis=1)
    m = (l <= rmax + 1e-9) & (l > 1e-9)
    return v[m]


def congruent(A, B, tol=5e-3, want=("proper", "improper")):
    cA, pA, zA = A
    cB, pB, zB = B
    cA = np.asarray(cA, float); cB = np.asarray(cB, float)
    pA = np.asarray(pA, float); pB = np.asarray(pB, float)
    zA = np.asarray(zA, int); zB = np.asarray(zB, int)
    res = {k: False for k in want}
    res["density_equal"] = False
    vA = abs(np.linalg.det(cA)); vB = abs(np.linalg.det(cB))
    if abs(len(zA) / vA - len(zB) / vB) > 1e-3 * len(zA) / vA:
        return res
    res["density_equal"] = True
    rB, _ = minkowski_reduce(cB)
    rB = np.asarray(rB, float)
    if np.linalg.det(rB) < 0:
        rB = rB[[1, 0, 2]]
    GB = rB @ rB.T
    lens = np.sqrt(np.diag(GB))
    rmax = lens.max() * 1.0001 + tol
    vecs = _lattice_vectors(cA, rmax)
    counts = {z: int((zA == z).sum()) for z in set(zA.tolist())}
    z0 = min(counts, key=lambda z: (counts[z], z))
    iA = np.where(zA == z0)[0]
    jB = np.where(zB == z0)[0]
    if len(jB) == 0:
        return res
    fracA = np.linalg.solve(cA.T, pA.T).T

    def lands(img, zs):
        f = np.linalg.solve(cA.T, img.T).T
        for k in range(len(zs)):
            d = fracA - f[k]
            d -= np.rint(d)
            dist = np.linalg.norm(d @ cA, axis=1)
            dist[zA != zs[k]] = 1e9
            if dist.min() > tol:
                return False
        return True

    # internal translations of A (A may be a supercell of the crystal)
    from vlib.oracles.mic import mic
    cand = [vecs]
    base = pA[iA[0]]
    vecs2 = None
    for j in iA[1:]:
        t = pA[j] - base
        if lands(pA + t, zA):
            tmin = mic(t[None, :], cA, [True, True, True])[0][0]      # shortest representative of t modulo A's cell lattice
            if np.linalg.norm(tmin) > rmax:
                continue
            if vecs2 is None:
                vecs2 = np.vstack([_lattice_vectors(cA, 2 * rmax), np.zeros((1, 3))])
            allv = vecs2 + tmin
            cand.append(allv[np.linalg.norm(allv, axis=1) <= rmax])
    V = np.vstack(cand)
    L = np.linalg.norm(V, axis=1)
    sel = [np.where(np.abs(L - lens[i]) < tol)[0] for i in range(3)]
    gtol = tol * lens.max() * 2
    detB = np.linalg.det(rB)
    for i0 in sel[0]:
        for i1 in sel[1]:
            if abs(V[i0] @ V[i1] - GB[0, 1]) > gtol:
                continue
            for i2 in sel[2]:
                if abs(V[i0] @ V[i2] - GB[0, 2]) > gtol or abs(V[i1] @ V[i2] - GB[1, 2]) > gtol:
                    continue
                T = np.array([V[i0], V[i1], V[i2]])
                d = np.linalg.det(T)
                if abs(abs(d) - abs(detB)) > 0.02 * abs(detB):
                    continue
                kind = "proper" if d > 0 else "improper"
                if kind not in want or res[kind]:
                    continue
                Q = np.linalg.solve(rB, T).T          # Q @ rB_i = T_i
                if np.abs(Q @ Q.T - np.eye(3)).max() > 5e-3:
                    continue
                for i in iA:
                    t = pA[i] - Q @ pB[jB[0]]
                    if lands(pB @ Q.T + t, zB):
                        res[kind] = True
                        break
            if all(res[k] for k in want):
                return res
    return res
