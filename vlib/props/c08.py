"""C08 - reported free Wyckoff parameters regenerate the atoms of their set."""
import numpy as np
from hypothesis import strategies as st

from vlib.case import Outcome, call, exc_key
from vlib.gen import crystals as gx
from vlib.oracles import wyexpr
from vlib.props import symcommon as sc

ID = "C08"
LEVEL = "exploration"
RULE = ("enumerated part: every (space group, Wyckoff letter) pair of the grid-stabiliser catalogue targeted once per draw - the letter and the "
        "letters of its normalizer orbit that precede it are occupied so that it stays occupied in the normal form - with generic parameters and a "
        "general-position anchor; random part: the C05 family and 2D layers; distinct = SHA-1 of the descriptor; non-trivial = at least one reported set "
        "carries a free parameter; coverage.reported_pairs counts the (group, letter) pairs actually reported by MatID")
ASSUMPTIONS = sc.FILTER_ASSUMPTIONS + [
    "free-ness of x, y, z is decided by an own parser on the set's `representative` expression strings, not by the numeric tables",
    "for *generation only* the targeted crystals read MatID's normalizer table to know which earlier letters to occupy; a wrong table can only lower the measured coverage, it never enters an oracle",
    "regenerated position must be within 2x the symmetry tolerance (Cartesian) of an atom of the set",
]
_REPORTED = {}


def EXHAUSTIVE(tier):
    return False


def plan(tier):
    return {"n_random": 3000 if tier == "quick" else 20000, "item_draws": 3 if tier == "quick" else 5, "time_s": 500 if tier == "quick" else 1750}


def _norm_orbit(sg, letter):
    try:
        from matid.data.symmetry_data import CHIRALITY_PRESERVING_EUCLIDEAN_NORMALIZERS as N
        orb = {letter}
        for nz in N.get(sg, []):
            v = nz["permutations"].get(letter)
            if v is not None:
                orb.add(v)
        ls = gx.letters(sg)
        return [l for l in ls if l in orb and ls.index(l) <= ls.index(letter)]
    except Exception:
        return [letter]


def items(tier):
    return [{"sg": sg, "letter": l} for sg in range(1, 231) for l in gx.letters(sg)]


def item_strategy(item, tier):
    sg, l = item["sg"], item["letter"]
    fl = _norm_orbit(sg, l)
    general = gx.letters(sg)[-1]
    salt = (sg * 7 + gx.LETTERS.index(l)) % 89
    if l == general:
        return st.fixed_dictionaries({"crystal": gx.crystal_descs(sgs=[sg], force_letters=[general], anchor=False, species=[14], salt=salt), "pres": gx.presentations(),
                                      "target": st.just([sg, l])})
    return st.fixed_dictionaries({"crystal": gx.crystal_descs(sgs=[sg], force_letters=fl, anchor=True, species=[14] * len(fl) + [50], salt=salt), "pres": gx.presentations(),
                                  "target": st.just([sg, l])})


@st.composite
def _random(draw):
    if draw(st.integers(0, 3)) == 0:
        from vlib.gen import layers as gl
        return {"layer": draw(gl.layer_descs()), "variant": draw(gl.variants())}
    return draw(sc.case_strategy())


def strategy(tier):
    return _random()


def shard_extra():
    return _REPORTED


def merge_extra(parts, tier):
    tot = {}
    for p in parts:
        for k, v in p.items():
            tot[k] = tot.get(k, 0) + v
    pairs3 = [k for k in tot if k.startswith("3D:")]
    want = {"3D:%d:%s" % (sg, l) for sg in range(1, 231) for l in gx.letters(sg)}
    missing = sorted(want - set(pairs3))
    return {"reported_pairs": len(set(pairs3) & want), "reported_pairs_total": len(want), "reported_pairs_missing": missing[:120],
            "reported_pairs_2d": len([k for k in tot if k.startswith("2D:")])}


def check_sets(out, an, conv, sets, tol, dim):
    from vlib.props.symcommon import frac_of
    cc = np.asarray(conv.get_cell(), float)
    sp = frac_of(conv)
    sg = an.get_space_group_number()
    anyfree = False
    for s in sets:
        key = "%s:%d:%s" % (dim, sg, s.wyckoff_letter)
        _REPORTED[key] = _REPORTED.get(key, 0) + 1
        try:
            fv = wyexpr.variables(s.representative)
        except ValueError as e:
            out.fail("representative-parse", str(e), key="parse:" + key)
            continue
        vals = {k: getattr(s, k) for k in "xyz"}
        got = {k for k, x in vals.items() if x is not None}
        if fv:
            anyfree = True
        if got != fv:
            out.fail("exactly-the-free-variables", "set %s of group %d: representative %s has free %s, reported %s" % (s.wyckoff_letter, sg, s.representative, sorted(fv), vals),
                     key="%s:freevars:%d:%s" % (dim, sg, s.wyckoff_letter))
            continue
        if any(x is not None and not (0.0 <= float(x) < 1.0) for x in vals.values()):
            out.fail("parameter-range", "set %s of group %d: value outside [0,1): %s" % (s.wyckoff_letter, sg, vals), key="%s:range:%d:%s" % (dim, sg, s.wyckoff_letter))
            continue
        q = np.array(wyexpr.point(s.representative, {k: (float(x) if x is not None else 0.0) for k, x in vals.items()}))
        ii = np.array(s.indices, int)
        d = sp[ii] - q
        d -= np.rint(d)
        dist = np.linalg.norm(d @ cc, axis=1).min()
        if dist > 2 * tol:
            if dim == "2D":
                dxy = d.copy()
                dxy[:, 2] = 0.0
                inplane = np.linalg.norm(dxy @ cc, axis=1).min()
                kind = "offset-along-nonperiodic-axis" if inplane <= 2 * tol else "inplane"
                if kind == "inplane":
                    # MatID exchanges the layer normal with c in the returned 2D cell (swap_basis) but the representative is
                    # written in spglib's standard axes (e.g. monoclinic unique axis b = layer normal): a representative that
                    # regenerates the atoms in-plane once its components are exchanged the same way is that (known) frame
                    # mismatch; anything else stays an in-plane violation
                    for ax in (0, 1):
                        q2 = q.copy()
                        q2[[ax, 2]] = q2[[2, ax]]
                        d2 = sp[ii] - q2
                        d2 -= np.rint(d2)
                        d2[:, 2] = 0.0
                        if np.linalg.norm(d2 @ cc, axis=1).min() <= 2 * tol:
                            kind = "axes-swapped"
                out.fail("regenerates-an-atom", "2D: set %s of group %d: representative %s with %s lands %.4g A from the nearest atom of the set (in-plane %.4g A)" % (s.wyckoff_letter, sg, s.representative, vals, dist, inplane),
                         key="2D:regen:%s" % kind)
            else:
                out.fail("regenerates-an-atom", "set %s of group %d: representative %s with %s lands %.4g A from the nearest atom of the set" % (s.wyckoff_letter, sg, s.representative, vals, dist),
                         key="3D:regen:%d:%s" % (sg, s.wyckoff_letter))
    return anyfree


def run_case(desc):
    from matid.symmetry import SymmetryAnalyzer
    out = Outcome()
    if "layer" in desc:
        from vlib.gen import layers as gl
        at = gl.build_variant(desc["layer"], desc["variant"], out)
        if at is None:
            return out
        tol = 1e-3
        dim = "2D"
        mk = lambda: SymmetryAnalyzer(at, symmetry_tol=1e-3)
        out.cls("2D")
    else:
        c = sc.prepare(desc, out)
        if c is None:
            return out
        at, tol, dim = c.at, c.otol, "3D"
        mk = lambda: sc.new_analyzer(c)
        out.cls("3D")

    from vlib.case import dhash
    pre = int(dhash(desc), 16) % 4      # a quarter of the cases each: fresh / material id first / parameter-less sets first / re-used analyser, flag first

    def analyse():
        an = mk()
        if pre == 3 and dim == "3D":
            # the analyser first worked on another crystal (CsCl with Cl at the origin: a non-identity normalizer is selected), is
            # handed this one through set_system() and is asked for the flag BEFORE anything else
            from ase import Atoms
            aux = Atoms("ClCs", scaled_positions=[[0, 0, 0], [0.5, 0.5, 0.5]], cell=[4.12] * 3, pbc=True)
            an = SymmetryAnalyzer(aux, symmetry_tol=c.tol)
            an.get_wyckoff_sets_conventional(True)
            an.get_has_free_wyckoff_parameters()
            an.set_system(at)
            flag_first = an.get_has_free_wyckoff_parameters()
            conv = an.get_conventional_system()
            return an, conv, an.get_wyckoff_sets_conventional(True), flag_first
        if pre == 1:
            an.get_material_id()
        elif pre == 2:
            an.get_wyckoff_sets_conventional(False)
        conv = an.get_conventional_system()
        return an, conv, an.get_wyckoff_sets_conventional(True), an.get_has_free_wyckoff_parameters()
    ok, r = call(analyse)
    if not ok:
        sg = None
        try:
            sg = mk().get_space_group_number()
        except Exception:
            pass
        return out.fail("returns-normally", "%s group %s: %r" % (dim, sg, r), key="%s:exc:%s%s" % (dim, "" if dim == "2D" else "%s:" % sg, exc_key(r)))
    an, conv, sets, hasfree = r
    anyfree = check_sets(out, an, conv, sets, tol, dim)
    if bool(hasfree) != bool(anyfree):
        out.fail("has-free-flag", "get_has_free_wyckoff_parameters() = %r but %s occupied set carries a parameter" % (hasfree, "some" if anyfree else "no"))
    out.nontrivial = bool(anyfree)
    out.cls("free" if anyfree else "no-free", ["history:fresh", "history:material-id-first", "history:plain-sets-first", "history:reused-analyser-flag-first" if dim == "3D" else "history:fresh"][pre])
    return out
