"""C03 - SBC separates a two-material stack into exactly the two slabs."""
import functools
import itertools

import numpy as np
from hypothesis import strategies as st

from vlib.gen import cells as gc
from vlib.case import Outcome, call, exc_key
from vlib.gen import materials as gm

ID = "C03"
LEVEL = "exploration"
RULE = ("enumerated: every ordered pair of distinct fcc metals on (100)/(111) and bcc metals on (100)/(110) with lattice mismatch < 5 %; drawn: 3-5 layers "
        "each, 4x4-5x5 lateral repeats, pbc TTT/TTF (TTT with 14 A vacuum or as an A/B superlattice in contact across the boundary), noise 0 / 0.03 A, permutation, noise draw, SBC seed; B is strained to A's in-plane cell and placed so "
        "that the shortest A-B distance lies between A's bulk nearest-neighbour distance and r_A + r_B + 0.2 A, vacuum 14 A or none; distinct = SHA-1 of the descriptor; every judged case is an interface (non-trivial)")
ASSUMPTIONS = [
    "independent precondition as in C02 (bonded with margin, no overlap with margin, m = 0.15 + 2*noise) evaluated on the generated stack; failing stacks are counted, not judged",
    "known findings, if any, are keyed by (A, B, structure, facet)",
]
FACETS = {"fcc": [(1, 0, 0), (1, 1, 1)], "bcc": [(1, 0, 0), (1, 1, 0)]}


def EXHAUSTIVE(tier):
    return False


def plan(tier):
    return {"n_random": 1300 if tier == "quick" else 0, "item_draws": 8, "time_s": 700 if tier == "quick" else 1750, "shrink_evals": 0}


@functools.lru_cache(maxsize=None)
def pairs():
    from ase.data import reference_states, chemical_symbols
    out = []
    for st_ in ("fcc", "bcc"):
        ms = [(chemical_symbols[Z], reference_states[Z]["a"]) for Z in range(1, 100)
              if reference_states[Z] and reference_states[Z]["symmetry"] == st_ and "a" in reference_states[Z]]
        for (sa, aa), (sb, ab) in itertools.permutations(ms, 2):
            if abs(aa - ab) / aa < 0.05:
                for f in FACETS[st_]:
                    out.append({"A": sa, "B": sb, "a": aa, "b": ab, "st": st_, "facet": list(f)})
    return out


@st.composite
def draws(draw, item):
    return {"item": item, "la": draw(st.integers(3, 5)), "lb": draw(st.integers(3, 5)), "size": draw(st.integers(4, 5)), "pbcz": draw(st.booleans()),
            "noise": draw(st.sampled_from([0.0, 0.03])), "contact": draw(st.sampled_from([False, True])), "gapfrac": draw(st.sampled_from([1.0, 0.0, 0.5])), "registry": [draw(st.sampled_from([0.0, 0.5])), draw(st.sampled_from([0.0, 0.5]))], "perm": draw(gm.seeds), "noise_seed": draw(gm.seeds), "sbc_seed": draw(st.integers(0, 10 ** 6)),
            # where the stack sits relative to its cell (and how the cell is oriented) is not part of the crystal: rigid motion of
            # cell + atoms, and a translation of the atoms alone (a quarter of them far: the stack then lies outside its cell)
            "rigid": draw(st.one_of(st.none(), gm.presentations(permute=False))),
            # a stack that is not periodic along its normal may describe that direction by a zero cell vector (ASE's form without vacuum)
            "zero_c": draw(st.sampled_from([False, False, True])),
            # ... or by a tight box: the cell height is exactly the height of the stack (atoms ON both faces)
            "tight_c": draw(st.sampled_from([False, False, True]))}


def items(tier):
    return [] if tier == "quick" else list(pairs())


def item_strategy(item, tier):
    return draws(item)


def strategy(tier):
    return st.sampled_from(list(pairs())).flatmap(draws)


def slab(sym, a, st_, facet, size, layers):
    import ase.build
    f = {("fcc", (1, 0, 0)): ase.build.fcc100, ("fcc", (1, 1, 1)): ase.build.fcc111, ("bcc", (1, 0, 0)): ase.build.bcc100, ("bcc", (1, 1, 0)): ase.build.bcc110}[(st_, tuple(facet))]
    return f(sym, size=(size, size, layers), a=a, vacuum=0.0)


def stack(A, B, gapdist, contact=False):
    """B (already built with A's lattice constant = strained) on top of A with shortest A-B distance = gapdist; 14 A vacuum,
    or (contact=True, periodic stacking) no vacuum at all: the top of B touches the periodic image of A at the same distance,
    i.e. an A/B superlattice."""
    from ase.geometry import get_distances
    A = A.copy(); B = B.copy()
    ca = np.asarray(A.get_cell()).copy()
    zA = A.get_positions()[:, 2]
    pB = B.get_positions()
    pB[:, 2] += -pB[:, 2].min() + zA.max()
    top = A.get_positions()[zA > zA.max() - 0.1]
    cell = np.array([ca[0], ca[1], [0, 0, 100.0]])

    def mind(dz):
        P = pB.copy(); P[:, 2] += dz
        bot = P[pB[:, 2] < pB[:, 2].min() + 0.1]
        return get_distances(top, bot, cell=cell, pbc=[1, 1, 0])[1].min()
    lo, hi = 0.0, 6.0
    for _ in range(40):
        mid = (lo + hi) / 2
        if mind(mid) < gapdist:
            lo = mid
        else:
            hi = mid
    pB[:, 2] += hi
    B.set_positions(pB)
    S = A + B
    z = S.get_positions()[:, 2]
    if contact:
        topB = pB[pB[:, 2] > pB[:, 2].max() - 0.1]
        botA = A.get_positions()[zA < zA.min() + 0.1]

        def mind2(h):
            P = botA.copy(); P[:, 2] += h
            return get_distances(topB, P, cell=cell, pbc=[1, 1, 0])[1].min()
        base = z.max() - z.min()
        lo, hi = base, base + 6.0
        for _ in range(40):
            mid = (lo + hi) / 2
            if mind2(mid) < gapdist:
                lo = mid
            else:
                hi = mid
        S.set_cell([ca[0], ca[1], [0, 0, hi]], scale_atoms=False)
        return S
    S.set_cell([ca[0], ca[1], [0, 0, z.max() - z.min() + 14.0]], scale_atoms=False)
    p = S.get_positions(); p[:, 2] += 7.0 - z.min()
    S.set_positions(p)
    return S


def run_case(desc):
    from ase.data import covalent_radii
    from matid.clustering import SBC
    out = Outcome()
    it = desc["item"]
    A = slab(it["A"], it["a"], it["st"], it["facet"], desc["size"], desc["la"])
    B = slab(it["B"], it["a"], it["st"], it["facet"], desc["size"], desc["lb"])
    # bonding distance across the interface: between the bulk nearest-neighbour distance of A (gapfrac 0) and the
    # covalent-radii sum + 0.2 A (gapfrac 1); the precondition below screens what is bonded and non-overlapping
    nn = it["a"] / np.sqrt(2.0) if it["st"] == "fcc" else it["a"] * np.sqrt(3.0) / 2.0
    gf = float(desc.get("gapfrac", 1.0))
    gd = (1.0 - gf) * nn + gf * (covalent_radii[A.get_atomic_numbers()[0]] + covalent_radii[B.get_atomic_numbers()[0]] + 0.2)
    contact = bool(desc.get("contact")) and bool(desc["pbcz"])
    # lateral registry of B on A: shift by halves of the 1x1 surface cell (on-top / bridge / hollow stackings)
    reg = desc.get("registry") or [0.0, 0.0]
    cA = np.asarray(A.get_cell())
    B.set_positions(B.get_positions() + (reg[0] * cA[0] + reg[1] * cA[1]) / float(desc["size"]))
    S = stack(A, B, gd, contact)
    S.set_pbc([True, True, bool(desc["pbcz"])])
    pc = gm.precondition(S, desc["noise"])
    if pc:
        out.discard = "precondition:" + pc
        return out
    nA = len(A)
    n = len(S)
    s2 = S.copy()
    if desc["noise"]:
        r = np.random.RandomState(desc["noise_seed"])
        d = r.normal(size=(n, 3)); d /= np.linalg.norm(d, axis=1)[:, None]
        s2.set_positions(s2.get_positions() + d * desc["noise"] * r.uniform(0, 1, (n, 1)))
    if desc.get("tight_c") and not desc.get("zero_c") and not desc["pbcz"]:
        z = s2.get_positions()[:, 2]
        s2.translate([0.0, 0.0, -z.min()])
        cz = np.asarray(s2.get_cell()).copy()
        cz[2] = [0.0, 0.0, float(np.ptp(z))]
        s2.set_cell(cz, scale_atoms=False)
        out.cls("cell-normal=tight")
    if desc.get("zero_c") and not desc["pbcz"]:
        cz = np.asarray(s2.get_cell()).copy()
        cz[2] = 0.0
        s2.set_cell(cz, scale_atoms=False)
        out.cls("cell-normal=zero")
    if desc.get("rigid"):
        rg = desc["rigid"]
        Q = gc.quat_to_rot(rg["quat"])
        s2.set_cell(np.asarray(s2.get_cell()) @ Q.T, scale_atoms=False)
        s2.set_positions(s2.get_positions() @ Q.T + np.array(rg["trans"], float))
        out.cls("rigid:far" if np.abs(rg["trans"]).max() > 5 else "rigid:near")
    perm = np.random.RandomState(desc["perm"]).permutation(n)
    s2 = s2[perm]
    if desc["perm"] % 3 == 0:
        s2.set_constraint()
        gc.attach_payload(s2, desc["perm"])
        out.cls("payload:constraints+tags+magmoms")
    setA = {int(i) for i in range(n) if perm[i] < nA}
    setB = set(range(n)) - setA
    key = "%s/%s:%s:%s" % (it["A"], it["B"], it["st"], "".join(str(x) for x in it["facet"]))
    out.cls("st=" + it["st"], "facet=" + "".join(str(x) for x in it["facet"]), "pbcz=%s" % desc["pbcz"], "noise=%g" % desc["noise"], "size=%d" % desc["size"], "superlattice" if contact else "vacuum", "gapfrac=%g" % gf)
    out.nontrivial = True
    ok, cl = call(lambda: SBC().get_clusters(s2, seed=desc["sbc_seed"]))
    if not ok:
        return out.fail("returns-normally", "%s: %r" % (key, cl), key="exc:%s:%s" % (key, exc_key(cl)))
    got = sorted((frozenset(int(i) for i in c.indices) for c in cl), key=len)
    if len(cl) != 2 or set(got) != {frozenset(setA), frozenset(setB)}:
        out.fail("exactly-the-two-slabs", "%s (layers %d+%d, %dx%d, pbc-z %s, noise %g): clusters of sizes %s, slabs have %d and %d atoms"
                 % (key, desc["la"], desc["lb"], desc["size"], desc["size"], desc["pbcz"], desc["noise"], [len(g) for g in got][:6], len(setA), len(setB)), key="exactly-the-two-slabs:" + key)
    else:
        for c in cl:
            ok, d = call(c.get_dimensionality)
            if not ok or d != 2:
                out.fail("slab-dimensionality", "%s: a slab cluster has dimensionality %r" % (key, d), key="slab-dimensionality:" + key)
    return out
