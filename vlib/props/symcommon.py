"""Shared pieces of the symmetry properties C05-C08, C12: case construction, filters, pattern enumeration."""
import itertools

import numpy as np
from hypothesis import strategies as st

from vlib.case import Outcome
from vlib.gen import crystals as gx
from vlib.oracles import spgref

TOL = 1e-3      # symmetry tolerance MatID is run with in the "tight" mode (the well-conditioned filter brackets it by 10x on either side)
DEFAULT_TOL = 0.4       # matid.constants.SYMMETRY_TOL: what a user who passes nothing gets ("default" mode, one case in five)
DEFAULT_SCALE = 5.0     # in the default mode the (exact) crystal is enlarged 5x: shortest distance >= 5 A, so 0.4 A is < 8 % of it

FILTER_ASSUMPTIONS = [
    "samples whose spglib group differs between symprec 1e-4 and 1e-2 are discarded and counted (ill-conditioned); MatID runs at 1e-3",
    "samples with raw shortest distance < 0.5 A are discarded and counted; 0.5-1 A are rescaled (<= x2); cells are scaled to >= 12 A^3 per atom",
    "permutation / unwrapping presentations are deterministic functions of a Hypothesis-drawn 32-bit integer (numpy RandomState), recorded in the descriptor",
    "one crystal in five (by descriptor hash) is analysed at MatID's DEFAULT tolerance (0.4 A, nothing passed) after enlarging the exact crystal 5x; such a sample is kept only if spglib "
    "finds the same group at 0.04 A and 1.2 A as at the tight tolerance and standardises it identically (lattice, positions, letters, origin shift) at 0.4 A and at the tight tolerance (else discarded and counted); independent spglib oracles always run at 1e-3 x the length scale",
]


@st.composite
def crystal_family(draw, sgs=None, **kw):
    """the C05 family plus a stratum with two species sharing one letter (and a third on a candidate partner letter)"""
    if sgs is None and not kw and draw(st.integers(0, 3)) == 0:
        return draw(gx.shared_letter_descs())
    return draw(gx.crystal_descs(sgs=sgs, **kw))


def case_strategy(sgs=None, **kw):
    return st.fixed_dictionaries({"crystal": crystal_family(sgs=sgs, **kw), "pres": gx.presentations()})


class Ctx:
    pass


def prepare(desc, out):
    """Build the presented crystal; returns Ctx or None (out.discard set)."""
    cell, frac, nums, status = gx.conditioned(desc["crystal"])
    if status != "ok":
        out.discard = status
        return None
    c = Ctx()
    from vlib.case import dhash
    c.mode = "default" if int(dhash(desc["crystal"]), 16) % 5 == 0 else "tight"
    c.scale = DEFAULT_SCALE if c.mode == "default" else 1.0
    cell = np.asarray(cell, float) * c.scale
    c.tol = DEFAULT_TOL if c.mode == "default" else TOL        # what MatID works with
    c.otol = TOL * c.scale                                      # what the independent spglib oracles are run with
    c.std = (cell, frac @ cell, nums)
    pres = desc["pres"]
    if c.scale != 1.0 and pres.get("trans") is not None:
        pres = dict(pres)
    c.cell, c.pos, c.nums = gx.apply_presentation(cell, frac, nums, pres)
    c.ds = gx.well_conditioned(c.cell, c.pos, c.nums, c.scale, also=(0.1 * DEFAULT_TOL, 3 * DEFAULT_TOL) if c.mode == "default" else ())
    if c.ds is None:
        out.discard = "ill-conditioned" if c.mode == "tight" else "ill-conditioned-at-default-tolerance"
        return None
    if c.mode == "default":
        # spglib itself must standardise this crystal identically at the default tolerance and at the tight one (at 0.4 A its
        # idealisation sometimes fails - "ssm_get_exact_positions failed" - and hands back another structure): only then is a
        # difference MatID's doing
        dl = gx.spglib_group(c.cell, c.pos, c.nums, DEFAULT_TOL)
        same = (dl is not None and len(dl.std_types) == len(c.ds.std_types) and np.array_equal(dl.std_types, c.ds.std_types)
                and list(dl.wyckoffs) == list(c.ds.wyckoffs) and int(dl.hall_number) == int(c.ds.hall_number)
                and np.allclose(dl.std_lattice, c.ds.std_lattice, rtol=0, atol=1e-6 * c.scale)
                and np.allclose(dl.transformation_matrix, c.ds.transformation_matrix, atol=1e-6)
                and np.abs(spgref.wrapd(np.asarray(dl.origin_shift) - np.asarray(c.ds.origin_shift))).max() < 1e-6
                and np.abs(spgref.wrapd(np.asarray(dl.std_positions) - np.asarray(c.ds.std_positions))).max() < 1e-6)
        if not same:
            out.discard = "spglib-standardisation-tolerance-dependent"
            return None
    out.cls("tolerance=" + c.mode)
    if desc["crystal"].get("pseudo"):
        out.cls("metric-pseudo-symmetry")
    c.at = gx.make_atoms(c.cell, c.pos, c.nums)
    if int(dhash(desc), 16) % 4 == 1:
        from vlib.gen import cells as gc
        gc.attach_payload(c.at, int(dhash(desc), 16) % (2 ** 32))      # constraints / tags / magmoms are not part of the crystal
        out.cls("payload:constraints+tags+magmoms")
    c.sg = int(c.ds.number)
    out.cls(*gx.pres_labels(desc["pres"]))
    out.cls("intended-group" if c.sg == desc["crystal"]["sg"] else "promoted")
    out.cls("centring=" + spgref.centring(c.sg))
    return c


def patterns(max_len, sgs=range(1, 231)):
    """(group, ordered tuple of distinct letters excluding the general position) - the discrete part of the normal-form choice."""
    out = []
    for sg in sgs:
        ls = gx.letters(sg)[:-1]
        for k in range(0, max_len + 1):
            for p in itertools.permutations(ls, k):
                out.append({"sg": sg, "letters": list(p)})
    return out


def pattern_strategy(item):
    return st.fixed_dictionaries({
        "crystal": gx.crystal_descs(sgs=[item["sg"]], force_letters=item["letters"], anchor=True, species=[8, 14, 26, 50],
                                    salt=(item["sg"] * 7 + sum(gx.LETTERS.index(c) * (i + 1) for i, c in enumerate(item["letters"]))) % 89),
        "pres": gx.presentations()})


def new_analyzer(c, atoms=None):
    """SymmetryAnalyzer on the case's crystal at the case's tolerance (default mode: nothing is passed, as a user would)"""
    from matid.symmetry import SymmetryAnalyzer
    atoms = c.at if atoms is None else atoms
    return SymmetryAnalyzer(atoms) if c.mode == "default" else SymmetryAnalyzer(atoms, symmetry_tol=TOL)


def frac_of(atoms):
    return np.linalg.solve(np.asarray(atoms.get_cell()).T, atoms.get_positions().T).T


def cover_merge(parts):
    tot = {}
    for p in parts:
        for k, v in p.items():
            tot[int(k)] = tot.get(int(k), 0) + v
    return {"detected_groups_covered": len(tot), "detected_groups_missing": [g for g in range(1, 231) if g not in tot]}


def analyzer_for(c, desc, out):
    """A SymmetryAnalyzer holding crystal c: for three quarters of the cases a fresh object, for one quarter an object that
    first analysed another structure and was then handed the crystal through the public set_system() - alternately as a
    new Atoms object and as the SAME Atoms object modified in place (history dependence of the cached results)."""
    from ase.build import bulk
    from matid.symmetry import SymmetryAnalyzer
    from vlib.case import dhash
    h = int(dhash(desc), 16)
    if h % 4 != 0:
        out.cls("analyser:fresh")
        return new_analyzer(c)
    live = bulk("NaCl", "rocksalt", a=5.64, cubic=True) if (h >> 3) % 2 else bulk("Te", "hcp", a=4.45, c=5.93)
    an = new_analyzer(c, live)
    an.get_conventional_system()
    an.get_wyckoff_sets_conventional(False)
    if (h >> 2) % 2:
        out.cls("analyser:reused-inplace")
        del live[list(range(len(live)))]
        live.extend(c.at)
        live.set_cell(c.at.get_cell(), scale_atoms=False)
        live.set_pbc(True)
        an.set_system(live)
    else:
        out.cls("analyser:reused-new-object")
        an.set_system(c.at)
    return an
