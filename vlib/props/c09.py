"""C09 - dimensionality is the rank of the periodic bonding network, however presented."""
import numpy as np
from hypothesis import strategies as st

from vlib.case import Outcome, call, exc_key
from vlib.gen import cells as gc
from vlib.oracles import netrank
from vlib.props.c10 import n_images

ID = "C09"
LEVEL = "exploration"
RULE = ("case = (cell, pbc, 1-30 atoms shaped as gas/layer/chain/blob, threshold 0.3-3.5, radii covalent/vdw/custom, optional per-atom "
        "lattice shifts up to +-5, one presentation change: supercell / unimodular re-basis / rigid motion / permutation / lattice shifts); "
        "distinct = SHA-1 of the descriptor; non-trivial = connected network with >=1 periodic axis, or some atom stored outside the cell")
ASSUMPTIONS = [
    "oracle: brute-force image enumeration + cycle-lattice rank (vlib/oracles/netrank.py), no matid code",
    "cases with a bond within 1e-7 of the threshold are discarded and counted (ambiguous)",
    "cases whose cycle lattice has different rank over Q and over GF(2) are outside the property's explored family: discarded and counted",
    "cases with (threshold + 2 r_max) / smallest periodic cell height > 6 are discarded and counted (cost: image count)",
]
ELEMENTS = [1, 6, 8, 14, 26, 29, 79]


def plan(tier):
    return {"n_random": 4000 if tier == "quick" else 100000, "time_s": 400 if tier == "quick" else 1700}


@st.composite
def _cases(draw):
    size = draw(st.sampled_from(["small", "small", "medium", "any"]))
    lo, hi = {"small": (1.5, 5.0), "medium": (4.0, 12.0), "any": (0.5, 30.0)}[size]
    cell = draw(gc.cell_descs(lo=lo, hi=hi, kinds=("orth", "tric", "sheared", "special")))
    pbc = draw(gc.pbcs)
    n = draw(st.integers(1, 30 if size != "small" else 12))
    shape = draw(st.sampled_from(["gas", "layer", "chain", "blob"]))
    ax = draw(st.integers(0, 2))
    fl = st.floats(0.0, 1.0, exclude_max=True, allow_nan=False, width=64)
    frac = [[draw(fl) for _ in range(3)] for _ in range(n)]
    Z = [draw(st.sampled_from(ELEMENTS)) for _ in range(n)]
    rk = draw(st.sampled_from(["covalent", "vdw", "custom"]))
    custom = [draw(gc.ffloat(0.2, 2.0)) for _ in range(n)] if rk == "custom" else None
    thr = draw(gc.ffloat(0.3, 3.5))
    d = {"cell": cell, "pbc": pbc, "shape": shape, "axis": ax, "frac": frac, "Z": Z, "radii": rk, "custom": custom, "thr": thr, "size": size}
    if draw(st.integers(0, 2)) == 0:
        # atoms stored in other periodic images: anywhere within +-5 cells, or all within ONE cell below / above the home cell
        rng_ = draw(st.sampled_from([(-5, 5), (-1, 0), (0, 1), (-1, 1)]))
        d["shifts"] = [[draw(st.integers(rng_[0], rng_[1])) for _ in range(3)] for _ in range(n)]
    if draw(st.integers(0, 3)) == 0:
        # a non-periodic cell vector leaning strongly along a periodic one (b' = b + k a): a legitimate description of the same
        # slab / wire in which atoms inside the cell can be many periodic vectors apart
        d["lean"] = [draw(st.integers(0, 2)), draw(st.integers(1, 2)), draw(st.integers(-10, 10))]
    t = draw(st.sampled_from(["latshift", "supercell", "rebasis", "rigid", "permute"]))
    tr = {"kind": t}
    if t == "supercell":
        tr["rep"] = [draw(st.sampled_from([2, 3, 1])) for _ in range(3)]
    elif t == "rebasis":
        tr["steps"] = [[draw(st.integers(0, 2)), draw(st.integers(1, 2)), draw(st.integers(-2, 2))] for _ in range(draw(st.integers(1, 3)))]
    elif t == "rigid":
        tr["quat"] = draw(st.lists(gc.ffloat(-1.0, 1.0), min_size=4, max_size=4))
        tr["t"] = [draw(gc.ffloat(-5.0, 5.0)) for _ in range(3)]
    elif t == "permute":
        tr["perm"] = draw(st.permutations(list(range(n))))
    else:
        tr["k"] = [[draw(st.integers(-5, 5)) for _ in range(3)] for _ in range(n)]
    d["transform"] = tr
    return d


def strategy(tier):
    return _cases()


def shape_frac(desc):
    f = np.array(desc["frac"], float)
    sh, ax = desc["shape"], desc["axis"]
    if sh == "layer":
        f[:, ax] = 0.5 + (f[:, ax] - 0.5) * 0.06
    elif sh == "chain":
        for a in ((ax + 1) % 3, (ax + 2) % 3):
            f[:, a] = 0.5 + (f[:, a] - 0.5) * 0.06
    elif sh == "blob":
        f = 0.5 + (f - 0.5) * 0.2
    return f


def radii_of(desc, Z):
    from ase.data import covalent_radii
    from ase.data.vdw_alvarez import vdw_radii
    if desc["radii"] == "covalent":
        return covalent_radii[Z], "covalent"
    if desc["radii"] == "vdw":
        return vdw_radii[Z], "vdw"
    r = np.array(desc["custom"], float)
    return r, r


def run_case(desc):
    import matid.geometry as mg
    from ase import Atoms
    out = Outcome()
    cell = gc.build_cell(desc["cell"])
    pbc = np.array(desc["pbc"], bool)
    if desc.get("lean"):
        i, dj, k = desc["lean"]
        j = (i + dj) % 3
        if (not pbc[i]) and pbc[j]:
            cell = cell.copy()
            cell[i] = cell[i] + k * cell[j]
    Z = np.array(desc["Z"], int)
    n = len(Z)
    f = shape_frac(desc)
    pos_in = f @ cell
    radii, rarg = radii_of(desc, Z)
    thr = float(desc["thr"])
    h = gc.heights(cell)
    hmin = h[pbc].min() if pbc.any() else np.inf
    if (thr + 2 * radii.max()) / hmin > (14 if n <= 8 else 6):
        out.discard = "too-many-images"
        return out
    cut = thr + 2 * radii.max()

    def too_big(c, natoms):
        """the implementation builds a 2x supercell and bins its bounding box with the cutoff: bound that cost"""
        c2 = np.array(c, float).copy()
        c2[pbc] *= 2
        nim, nbins = n_images(c2, pbc, cut, natoms * 2 ** int(pbc.sum()), cut)
        return nim > 6e4 or nbins > 3e6
    if too_big(cell, n):
        out.discard = "too-many-bins"
        return out
    shifted = desc.get("shifts") is not None
    pos = pos_in.copy()
    if shifted:
        k = np.array(desc["shifts"], float)
        k[:, ~pbc] = 0
        pos = pos + k @ cell
        shifted = bool(k.any())
    rq, r2, amb, ncomp = netrank.dimensionality(pos_in, cell, pbc, radii, thr)
    if amb:
        out.discard = "ambiguous-bond"
        return out
    if rq is not None and rq != r2:
        out.discard = "rankQ!=rankGF2"
        return out
    expected = rq if pbc.any() or rq is None else 0
    out.cls("shape=" + desc["shape"], "npbc=%d" % pbc.sum(), "dim=%s" % expected, "radii=" + desc["radii"], "outside" if shifted else "inside", "size=" + desc["size"], *(["leaning-nonperiodic-vector"] if desc.get("lean") else []))
    out.nontrivial = bool((expected is not None and pbc.any()) or shifted)

    def rad_for(idx=None, rep=1):
        if isinstance(rarg, str):
            return rarg
        r = rarg if idx is None else rarg[idx]
        return np.tile(r, rep)

    at = Atoms(numbers=Z, positions=pos, cell=cell, pbc=pbc)
    snap = (at.get_positions().copy(), at.get_atomic_numbers().copy(), np.asarray(at.get_cell()).copy())
    ok, dm = call(mg.get_dimensionality, at, thr, radii=rad_for())
    if not ok:
        return out.fail("returns-normally", "%r" % dm, key="exc:" + exc_key(dm))
    if dm != expected:
        out.fail("dimensionality-oracle" + ("-outside" if shifted else ""), "matid %r, bonding-network rank %r (components %d, atoms %s the cell)" % (dm, expected, ncomp, "outside" if shifted else "inside"))
    if not (np.array_equal(snap[0], at.get_positions()) and np.array_equal(snap[1], at.get_atomic_numbers()) and np.array_equal(snap[2], np.asarray(at.get_cell()))):
        out.fail("input-untouched", "get_dimensionality modified its input")

    # ---- other entry points of the same function: clusters of the cell contents, and a precomputed distance matrix ------
    ok, rc = call(mg.get_dimensionality, at.copy(), thr, radii=rad_for(), return_clusters=True)
    if not ok:
        out.fail("returns-normally", "return_clusters=True: %r" % rc, key="exc-clusters:" + exc_key(rc))
    else:
        d_rc, cl = rc
        if d_rc != dm:
            out.fail("return-clusters-same-dimensionality", "return_clusters=True gives %r, the plain call %r" % (d_rc, dm))
        flat = sorted(int(i) for c in cl for i in c)
        if flat != list(range(n)):
            out.fail("clusters-partition", "returned clusters do not partition the %d atoms" % n)
        elif len(cl) != ncomp:
            out.fail("clusters-are-components", "%d clusters returned, the bonding graph of the cell contents has %d components" % (len(cl), ncomp))
    if n_images(cell, pbc, (np.linalg.norm(cell, axis=1)[pbc].max() if pbc.any() else 0.0), n, None)[0] <= 5e3 and not shifted:
        ok, dd = call(mg.get_distances, at.copy(), rad_for() if not isinstance(rarg, str) else rarg)
        if ok:
            ok, d_pre = call(mg.get_dimensionality, at.copy(), thr, dist_matrix_radii_mic_1x=np.array(dd.dist_matrix_radii_mic), radii=rad_for())
            if not ok:
                out.fail("returns-normally", "precomputed distance matrix: %r" % d_pre, key="exc-precomputed:" + exc_key(d_pre))
            elif d_pre != dm:
                out.fail("precomputed-matrix-same-dimensionality", "with the distance matrix of get_distances passed in: %r, plain call %r" % (d_pre, dm))
    # ---- metamorphic: one change of presentation, same answer ------------------------------------------
    tr = desc["transform"]
    kind = tr["kind"]
    rep = 1
    idx = None
    if kind == "supercell":
        r = np.array(tr["rep"], int)
        r[~pbc] = 1
        while n * r.prod() > 60 and r.max() > 1:
            r[int(np.argmax(r))] -= 1
        at2 = at.repeat(r.tolist())
        rep = int(r.prod())
        kind += ":%dx" % rep
    elif kind == "rebasis":
        M = np.eye(3, dtype=int)
        for i, dj, kk in tr["steps"]:
            j = (i + dj) % 3
            if pbc[i] and pbc[j]:
                M[i] += kk * M[j]
        at2 = at.copy()
        at2.set_cell(M @ cell, scale_atoms=False)
        if (thr + 2 * radii.max()) / (gc.heights(M @ cell)[pbc].min() if pbc.any() else np.inf) > 6:
            at2 = None
    elif kind == "rigid":
        R = gc.quat_to_rot(tr["quat"])
        at2 = at.copy()
        at2.set_cell(cell @ R.T, scale_atoms=False)
        at2.set_positions(pos @ R.T + np.array(tr["t"], float))
    elif kind == "permute":
        idx = np.array(tr["perm"], int)
        at2 = at[idx]
    else:
        k = np.array(tr["k"], float)
        k[:, ~pbc] = 0
        at2 = at.copy()
        at2.set_positions(pos + k @ cell)
    if at2 is not None and too_big(np.asarray(at2.get_cell()), len(at2)):
        at2 = None
    if at2 is not None:
        want = dm
        if kind.startswith("supercell") and rep > 1:
            # Repeating a cell whose contents are not bonded to their own images along the repeated direction yields
            # several disconnected copies, for which the first clause of the property itself demands None.  The
            # supercell is therefore judged against the oracle evaluated on the repeated structure.
            rq2, r22, amb2, _ = netrank.dimensionality(at2.get_positions(), np.asarray(at2.get_cell()), pbc, np.tile(radii, rep), thr)
            if amb2 or (rq2 is not None and rq2 != r22):
                at2 = None
            else:
                want = rq2
                out.cls("supercell-keeps-dim" if want == expected else "supercell-disconnects")
    if at2 is not None:
        ok, d2 = call(mg.get_dimensionality, at2, thr, radii=rad_for(idx, rep))
        out.cls("meta=" + kind.split(":")[0])
        if not ok:
            out.fail("returns-normally", "after %s: %r" % (kind, d2), key="exc-meta:" + exc_key(d2))
        elif d2 != want:
            out.fail("invariance-" + kind.split(":")[0], "dimensionality %r becomes %r after %s (expected %r)" % (dm, d2, kind, want))
    if out.nontrivial:
        out.cls("nontrivial")
    return out
