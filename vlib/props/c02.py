"""C02 - SBC groups a single crystal (bulk or slab) into exactly one complete cluster."""
import numpy as np

from vlib.case import Outcome, call, exc_key
from vlib.gen import materials as gm
from vlib.props import matcommon as mcm

ID = "C02"
LEVEL = "exploration"
RULE = ("case = (material of the reference library: 65 ASE reference-state elements + 12 compound prototypes; bulk supercell or slab with facet "
        "(100)/(110)/(111)/(001), 3-4 layers, pbc TTT/TTF; noise 0/0.02/0.05 A) x presentation (SO(3) rotation, translation, permutation, noise draw, SBC seed); "
        "cases failing the independent bonding/overlap precondition are counted, not generated as positives; distinct = SHA-1 of the descriptor; "
        "non-trivial = every judged case (each is rotated, translated and permuted); thorough enumerates every combination x 3 presentations")
ASSUMPTIONS = [
    "independent precondition (ASE covalent radii + ASE minimum-image distances): primitive cell <= 6 atoms, primitive vectors < max_cell_size - 0.1, bonded graph connected at 0.65 - m and no pair below -0.6 + m with safety margin m = 0.15 + 2*noise (my reading of 'safety margin')",
    "periodic cell heights > 2*max_cell_size + 0.5 by construction of the repeats",
    "known findings are keyed by (material, form, facet, layers); a combination that fails and is not listed is reported",
]


def EXHAUSTIVE(tier):
    return tier == "thorough"


def plan(tier):
    return {"n_random": 640 if tier == "quick" else 0, "item_draws": 3, "time_s": 700 if tier == "quick" else 1750, "shrink_evals": 0}


def items(tier):
    return [] if tier == "quick" else mcm.combos()


def item_strategy(item, tier):
    return mcm.item_strategy(item)


def strategy(tier):
    return mcm.case_strategy(mcm.combos())


def build_case(desc, out):
    c = desc["combo"]
    gap = desc.get("gap") if (c["form"] == "slab" and c["pbcz"]) else None
    s, why = gm.make(c["mat"], c["form"], c["facet"], c["layers"], c["pbcz"], gap=gap)
    if s is None:
        out.discard = "precondition:" + why
        return None
    pc = gm.precondition(s, c["noise"])
    if pc:
        out.discard = "precondition:" + pc
        return None
    if gap is not None:
        # a slab: not bonded to its own image, with the same margin as the bonding precondition (and 0.2 A on top)
        if gm.image_clearance(s) < 0.65 + 0.15 + 2 * c["noise"] + 0.2:
            out.discard = "precondition:thin-vacuum-slab-bonded-to-image"
            return None
        out.cls("thin-vacuum")
    cform = desc.get("cform") if (c["form"] == "slab" and not c["pbcz"]) else None
    if cform:
        # the non-periodic direction of the cell: zero vector or tight box (set AFTER the precondition, which needs a full cell)
        s = s.copy()
        z = s.get_positions()[:, 2]
        s.translate([0.0, 0.0, -z.min()])
        cell = np.asarray(s.get_cell()).copy()
        cell[2] = [0.0, 0.0, 0.0 if cform == "zero" else float(np.ptp(z))]
        if cform == "tight" and np.ptp(z) < 0.5:
            cell[2] = [0.0, 0.0, 0.0]
        s.set_cell(cell, scale_atoms=False)
        out.cls("cell-normal=" + cform)
    s2, perm = gm.present(s, desc["pres"], c["noise"])
    return s, s2, perm


def run_case(desc):
    from matid.clustering import SBC
    out = Outcome()
    r = build_case(desc, out)
    if r is None:
        return out
    s, s2, perm = r
    c = desc["combo"]
    out.cls("form=" + c["form"], "type=" + gm.library()[c["mat"]][0], "noise=%g" % c["noise"])
    if c["form"] == "slab":
        out.cls("facet=" + "".join(str(x) for x in c["facet"]), "pbcz=%s" % c["pbcz"])
    out.nontrivial = True
    if np.abs(desc["pres"]["trans"]).max() > 5:
        out.cls("far-translation")
        if c["form"] == "slab" and not c["pbcz"]:
            from ase.geometry import complete_cell
            f = np.linalg.solve(complete_cell(np.asarray(s2.get_cell())).T, s2.get_positions().T).T[:, 2]
            out.cls("slab-below-cell" if f.max() < 0 else "slab-above-cell" if f.min() > 1 else "slab-straddles-or-inside")
    ok, cl = call(lambda: SBC().get_clusters(s2, seed=desc["pres"]["sbc_seed"]))
    key = mcm.combo_key(c)
    if not ok:
        return out.fail("returns-normally", "%s: %r" % (key, cl), key="exc:%s:%s" % (key, exc_key(cl)))
    dim = 3 if c["form"] == "bulk" else 2
    sizes = sorted((len(x.indices) for x in cl), reverse=True)
    if len(cl) != 1 or len(cl[0].indices) != len(s2) or set(int(i) for i in cl[0].indices) != set(range(len(s2))):
        out.fail("one-complete-cluster", "%s (noise %g, pbc-z %s, %d atoms): clusters of sizes %s" % (key, c["noise"], c["pbcz"], len(s2), sizes[:6]), key="one-complete-cluster:" + key)
    else:
        ok, d = call(cl[0].get_dimensionality)
        if not ok or d != dim:
            out.fail("cluster-dimensionality", "%s: dimensionality %r, expected %d" % (key, d, dim), key="cluster-dimensionality:" + key)
    return out
