"""C13 - Cluster.get_dimensionality agrees with get_dimensionality of the cluster's atoms."""
import numpy as np
from hypothesis import strategies as st

from vlib.case import Outcome, call, exc_key
from vlib.gen import cells as gc
from vlib.gen import messy
from vlib.props import c01

ID = "C13"
LEVEL = "exploration"
RULE = ("case = messy structure (emphasis: isolated on-lattice atom, crystallite, defective crystal, slab, stack) x clustering parameters (bond threshold "
        "0.4-1.0, radii covalent / vdw / custom array, seed); every returned cluster is an obligation; distinct = SHA-1 of the descriptor; non-trivial = "
        "a cluster was returned after SBC merged clusters, resolved a multiply assigned atom or removed an atom while cleaning (harness-side counters)")
ASSUMPTIONS = [
    "resource bound: structures whose longest periodic cell vector exceeds 60x the smallest periodic cell height (strongly sheared descriptions of a small lattice) are discarded and counted - MatID needs gigabytes for them and a memory kill is not a verdict",
    "reference value: matid.geometry.get_dimensionality(cluster.get_atoms(), bond_threshold, radii=<the radii of exactly these atoms>) - the property is a differential statement between the shortcut and the direct evaluation",
    "structures for which get_clusters raises are C01's business and are not judged here (counted)",
]


def plan(tier):
    return {"n_random": 2000 if tier == "quick" else 10000, "time_s": 600 if tier == "quick" else 1750, "shrink_evals": 40 if tier == "quick" else 300}


@st.composite
def _cases(draw, max_atoms):
    s = draw(messy.structures(max_atoms=max_atoms, allow_zero_periodic=False))
    p = draw(c01.params())
    p["bond_threshold"] = 0.65 if draw(st.booleans()) is False else draw(gc.ffloat(0.4, 1.0))
    p["radii"] = draw(st.sampled_from(["covalent", "vdw", "custom"]))
    return {"structure": s, "params": p, "crit": draw(c01.crits(2))}


def strategy(tier):
    return _cases(120 if tier == "quick" else 300)


def run_case(desc):
    import matid.geometry as mg
    out = Outcome()
    s = messy.build(desc["structure"])
    p = desc["params"]
    if messy.too_skewed(s):
        out.discard = "resource-bound:strongly-sheared-cell"
        return out
    nums = s.get_atomic_numbers()
    rarg, rad = c01.radii_for(p, nums)
    if np.isnan(rad).any():
        out.discard = "element-without-radius"
        return out
    out.cls(*messy.labels(desc["structure"], s), "radii=" + p["radii"])
    if desc.get("crit"):
        thr = c01.critical_threshold(s, np.asarray(rad, float), desc["crit"], lo=0.4, hi=1.0)
        if thr is not None:
            p = dict(p, bond_threshold=thr)
            out.cls("threshold-next-to-deciding-contact")
    c01.install_counters()
    c01.ACT.clear()
    ok, r = call(c01.run_sbc, s, p, rarg)
    if not ok:
        out.discard = "get_clusters-raised"
        return out
    _, cl = r
    act = dict(c01.ACT)
    touched = bool(act.get("merged") or act.get("multi") or act.get("cleaned"))
    tag = "after-merge/localise/clean" if touched else "untouched"
    for k, c in enumerate(cl):
        ii = [int(i) for i in c.indices]
        ok, d1 = call(c.get_dimensionality)
        if not ok:
            out.fail("returns-normally", "Cluster.get_dimensionality raised %r" % d1, key="exc:" + exc_key(d1))
            continue
        ok, at = call(c.get_atoms)
        if not ok:
            out.fail("returns-normally", "Cluster.get_atoms raised %r" % at, key="exc-atoms:" + exc_key(at))
            continue
        rr = rarg if isinstance(rarg, str) else np.asarray(rarg)[ii]
        ok, d2 = call(mg.get_dimensionality, at, p["bond_threshold"], radii=rr)
        if not ok:
            out.fail("returns-normally", "direct get_dimensionality raised %r" % d2, key="exc-direct:" + exc_key(d2))
            continue
        if d1 != d2:
            out.fail("shortcut-equals-direct", "cluster %d (%d atoms, %s, radii %s): shortcut %r, direct evaluation %r" % (k, len(ii), tag, p["radii"], d1, d2),
                     key="shortcut-equals-direct:%s:%s" % ("touched" if touched else "untouched", "covalent" if p["radii"] == "covalent" else "other-radii"))
        ok, d3 = call(c.get_dimensionality)
        if ok and d3 != d1:
            out.fail("repeatable", "second call returns %r after %r" % (d3, d1))
    # history: the SAME SBC object clusters the SAME structure again with other (smaller, custom) radii - whatever the
    # object remembers from the first call must not leak into the clusters of the second
    sbc0 = r[0]
    rad2 = 0.6 * np.asarray(rad, float)
    ok, r2 = call(c01.run_sbc, s, p, rad2, sbc0)
    if ok:
        out.cls("history:same-instance-other-radii")
        for k, c in enumerate(r2[1]):
            ii = [int(i) for i in c.indices]
            ok1, d1 = call(c.get_dimensionality)
            ok2, d2 = call(lambda: mg.get_dimensionality(c.get_atoms(), p["bond_threshold"], radii=rad2[ii]))
            if ok1 and ok2 and d1 != d2:
                out.fail("shortcut-equals-direct-after-reuse", "second get_clusters call on the same SBC object with 0.6x radii: cluster %d (%d atoms) shortcut %r, direct evaluation %r" % (k, len(ii), d1, d2))
    out.cls("clusters=%d" % min(len(cl), 3), tag)
    out.nontrivial = bool(cl and touched)
    return out
