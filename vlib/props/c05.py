"""C05 - the conventional cell is the same crystal as the input, chirality preserved."""
import numpy as np

from vlib.case import Outcome, call, exc_key
from vlib.gen import crystals as gx
from vlib.oracles import spgref
from vlib.oracles.congruence import congruent
from vlib.props import symcommon as sc

ID = "C05"
LEVEL = "exploration"
RULE = ("random part: crystal (group 1-230, 1-3 orbits on catalogue Wyckoff positions + usually a general-position anchor, lattice of the "
        "crystal system) x presentation (supercell, shear, rotation, translation, permutation, unwrapping, left-handed basis); enumerated part: "
        "every occupation pattern (group, ordered distinct special letters; 1 letter in quick, up to 3 in thorough) with ascending species; "
        "distinct = SHA-1 of the descriptor; non-trivial = MatID's conventional atoms differ from spglib's standardised atoms (a normalizer was applied) or the group is a Sohncke group")
ASSUMPTIONS = sc.FILTER_ASSUMPTIONS + [
    "congruence oracle (vlib/oracles/congruence.py) uses neither spglib nor matid; it is self-validated per case (the presented input must be found properly congruent to its own standard-setting description), otherwise the case is counted as oracle-inconclusive",
    "independent spglib call on the input at the same symprec supplies the expected group number and std_lattice parameters",
]
_COVER = {}


def EXHAUSTIVE(tier):
    return False


def plan(tier):
    return {"n_random": 3000 if tier == "quick" else 40000, "item_draws": 1, "time_s": 500 if tier == "quick" else 1750}


def items(tier):
    return sc.patterns(1 if tier == "quick" else 3)


def item_strategy(item, tier):
    return sc.pattern_strategy(item)


def strategy(tier):
    return sc.case_strategy()


def shard_extra():
    return _COVER


def merge_extra(parts, tier):
    return sc.cover_merge(parts)


def cellpar(cell):
    cell = np.asarray(cell, float)
    l = np.linalg.norm(cell, axis=1)
    ang = [np.degrees(np.arccos(np.clip(cell[(i + 1) % 3] @ cell[(i + 2) % 3] / (l[(i + 1) % 3] * l[(i + 2) % 3]), -1, 1))) for i in range(3)]
    return np.array(list(l) + ang)


def reduced_formula(nums):
    from math import gcd
    from functools import reduce
    vals, cnt = np.unique(np.asarray(nums, int), return_counts=True)
    g = reduce(gcd, cnt.tolist())
    return tuple((int(v), int(c // g)) for v, c in zip(vals, cnt))


def run_case(desc):
    import spglib
    from matid.symmetry import SymmetryAnalyzer
    out = Outcome()
    c = sc.prepare(desc, out)
    if c is None:
        return out
    from vlib.case import dhash
    order = (int(dhash(desc), 16) >> 7) % 3      # sibling getters: none / primitive system first / primitive system and sets afterwards

    def analyse():
        an = sc.analyzer_for(c, desc, out)
        if order == 1:
            an.get_primitive_system()
        sgn_ = an.get_space_group_number()
        conv_ = an.get_conventional_system()
        snap = (np.asarray(conv_.get_cell()).copy(), conv_.get_positions().copy(), conv_.get_atomic_numbers().copy())
        if order == 2:
            an.get_primitive_system()
            an.get_wyckoff_sets_conventional(True)
            an.get_material_id()
        return sgn_, conv_, snap
    ok, r = call(analyse)
    if not ok:
        return out.fail("returns-normally", "%r" % r, key="exc:" + exc_key(r))
    sgn, conv, snap = r
    out.cls("sibling-getters:%d" % order)
    if not (np.array_equal(snap[0], np.asarray(conv.get_cell())) and np.array_equal(snap[1], conv.get_positions()) and np.array_equal(snap[2], conv.get_atomic_numbers())):
        out.fail("returned-object-stable", "the conventional system handed to the caller changed when get_primitive_system / get_wyckoff_sets_conventional / get_material_id were called afterwards")
    sohncke = c.sg in spgref.sohncke()
    _COVER[c.sg] = _COVER.get(c.sg, 0) + 1
    out.cls("sohncke" if sohncke else "achiral")
    key_sfx = ":sohncke" if sohncke else ":achiral"
    # (a) space group
    if int(sgn) != c.sg:
        out.fail("group-number", "MatID detects %d, independent spglib search %d" % (sgn, c.sg))
    cc = np.asarray(conv.get_cell(), float)
    cf = sc.frac_of(conv)
    cn = conv.get_atomic_numbers()
    d3 = spglib.get_symmetry_dataset((cc, cf, cn), symprec=c.otol)
    if d3 is None or int(d3.number) != c.sg:
        out.fail("returned-structure-group", "independent symmetry search on the returned structure gives %s, input has %d" % (getattr(d3, "number", None), c.sg))
    # (b) standardised lattice
    dsi = gx.spglib_group(c.cell, c.pos, c.nums, c.otol)
    p0, p1 = cellpar(dsi.std_lattice), cellpar(cc)
    if np.abs(p0 - p1).max() > 1e-5 * max(1.0, p0.max()):
        out.fail("standardized-lattice", "cell parameters %s, spglib std_lattice %s" % (np.round(p1, 6).tolist(), np.round(p0, 6).tolist()))
    if not np.asarray(conv.get_pbc()).all():
        out.fail("pbc", "conventional system of a 3D crystal is not fully periodic")
    # (c) composition and density
    if reduced_formula(cn) != reduced_formula(c.nums):
        out.fail("composition", "reduced formula %s vs input %s" % (reduced_formula(cn), reduced_formula(c.nums)))
    dens0 = len(c.nums) / abs(np.linalg.det(c.cell)); dens1 = len(cn) / abs(np.linalg.det(cc))
    if abs(dens0 - dens1) > 1e-4 * dens0:
        out.fail("atoms-per-volume", "%.8g vs input %.8g" % (dens1, dens0))
    if len(cn) != len(dsi.std_types):
        out.fail("atom-count", "%d atoms, standardized cell has %d" % (len(cn), len(dsi.std_types)))
    # (d) congruence, chirality
    selfv = congruent((c.cell, c.pos, c.nums), c.std, want=("proper",))
    if not selfv["proper"]:
        out.cls("oracle-inconclusive")
        out.info["oracle_inconclusive"] = True
    else:
        r = congruent((c.cell, c.pos, c.nums), (cc, conv.get_positions(), cn))
        if not r["proper"]:
            if r["improper"]:
                out.fail("chirality", "the returned conventional cell is the mirror image of the input (group %d%s): congruent only through an improper motion" % (c.sg, ", a Sohncke group" if sohncke else ""), key="mirror-image" + key_sfx)
            else:
                out.fail("same-crystal", "the returned conventional cell is not congruent to the input (group %d)" % c.sg, key="not-congruent" + key_sfx)
    # non-trivial: a normalizer moved atoms relative to spglib's standardised positions, or Sohncke
    moved = True
    if len(cn) == len(dsi.std_types):
        d = spgref.wrapd(cf - np.asarray(dsi.std_positions))
        moved = bool(np.abs(d).max() > 1e-6) or not np.array_equal(cn, dsi.std_types)
    out.cls("normalizer-applied" if moved else "spglib-representation")
    out.nontrivial = bool(moved or sohncke)
    return out
