"""C01 - SBC always returns a well-formed, disjoint, connected set of clusters."""
import collections

import numpy as np
from hypothesis import strategies as st

from vlib.case import Outcome, call, exc_key
from vlib.gen import cells as gc
from vlib.gen import messy
from vlib.oracles import images as oim
from vlib.oracles import mic as omic

ID = "C01"
LEVEL = "exploration"
RULE = ("case = messy structure descriptor (isolated on-lattice atom / defective crystal / crystallite / two grains / stack / slab / gas / molecule; any pbc; "
        "optional shear, zero cell vectors, unwrapping) x parameters (bond_threshold, pos_tol, max_cell_size, merge_threshold, radii preset or custom, seed); "
        "distinct = SHA-1 of the descriptor; non-trivial = at least one cluster returned and (>= 2 clusters, or atoms left unassigned, or SBC merged clusters, "
        "had a multiply assigned atom, or removed an atom while cleaning - observed by wrapping the three private SBC passes from the harness)")
ASSUMPTIONS = [
    "resource bound: structures whose longest periodic cell vector exceeds 60x the smallest periodic cell height (strongly sheared descriptions of a small lattice) are discarded and counted - MatID needs gigabytes for them and a memory kill is not a verdict",
    "connectivity oracle: exact minimum-image distances (vlib/oracles/mic.py) on the caller's structure, edge iff d_mic - r_i - r_j <= bond_threshold + 1e-7",
    "radii: ASE covalent / vdW tables or the custom per-atom array given to SBC; elements restricted to those with both radii tabulated (fallbacks are C19's business)",
    "ValueError is accepted only when a zero cell vector lies along a periodic direction",
    "harness-side counters (merge/multi-assignment/cleaning) feed only the non-triviality classification, never an oracle",
]
ACT = {}


def plan(tier):
    return {"n_random": 1200 if tier == "quick" else 8000, "time_s": 600 if tier == "quick" else 1750, "shrink_evals": 40 if tier == "quick" else 300}


@st.composite
def params(draw):
    p = {}
    # non-default values: explicit magnitudes + jitter inside the stated range (Hypothesis' bounded floats cluster at the lower
    # bound and at simple values; the interesting combinations - e.g. merge_threshold above bond_threshold - need spread)
    def spread(lo, hi):
        return st.builds(lambda k, e: min(hi, lo + (hi - lo) * (k + e) / 5.0), st.sampled_from([2, 0, 4, 1, 3]), gc.ffloat(0.0, 1.0))
    p["bond_threshold"] = draw(st.sampled_from([0.65, None]))
    if p["bond_threshold"] is None:
        p["bond_threshold"] = draw(spread(0.3, 1.2))
    for k, dflt, lo, hi in (("pos_tol", 0.7, 0.1, 1.0), ("max_cell_size", 6.0, 3.0, 9.0), ("merge_threshold", 0.5, 0.1, 0.9)):
        p[k] = dflt if draw(st.booleans()) is False else draw(spread(lo, hi))
    p["radii"] = draw(st.sampled_from(["covalent", "vdw", "vdw_covalent", "custom"]))
    p["custom_seed"] = draw(messy.seeds)
    p["seed"] = draw(st.integers(0, 10 ** 6))
    return p


@st.composite
def _cases(draw, max_atoms):
    return {"structure": draw(messy.structures(max_atoms=max_atoms)), "params": draw(params()), "crit": draw(crits())}


def strategy(tier):
    return _cases(80 if tier == "quick" else 300)


CRIT_DELTAS = [-3e-7, 3e-7, -1e-9, 1e-9, -1e-5, 1e-5, -6e-7, 6e-7]


def crits(share=1):
    """optional request to put the bond threshold right next to (never on) a contact that decides connectivity"""
    return st.one_of(*([st.none()] * (2 if share == 1 else 1)), *([st.fixed_dictionaries({"k": st.integers(0, 10 ** 6), "delta": st.sampled_from(CRIT_DELTAS)})] * share))


def critical_threshold(s, rad, crit, lo=0.3, hi=1.2):
    """The structure's bonding graph changes its connectivity exactly at the weights of the minimum spanning tree of the
    radius-corrected minimum-image distances (independent oracle).  Returns such a weight (the crit['k']-th inside [lo, hi])
    plus crit['delta'] - a threshold 1e-9 .. 1e-5 away from a deciding contact - or None."""
    from scipy.sparse.csgraph import minimum_spanning_tree
    cell = np.asarray(s.get_cell())
    pbc = np.asarray(s.get_pbc())
    if len(s) < 2 or len(s) > 400 or any((not cell[i].any()) and pbc[i] for i in range(3)):
        return None
    D = omic.pair_table(s.get_positions(), oim.completed(cell), pbc)[2]
    E = D - rad[:, None] - rad[None, :]
    W = E + 50.0
    np.fill_diagonal(W, 0.0)
    T = minimum_spanning_tree(W).toarray()
    w = np.sort(T[T > 0] - 50.0)
    w = w[(w >= lo) & (w <= hi)]
    if len(w) == 0:
        return None
    # distinct deciding contacts only (symmetry-equivalent contacts coincide to rounding: keep one per 1e-4 bin, and stay away
    # from any OTHER contact of the whole table by more than 10x |delta| so that only the chosen one is near the threshold)
    w0 = float(w[crit["k"] % len(w)])
    thr = w0 + crit["delta"]
    near = np.abs(E - thr) < 10 * abs(crit["delta"])
    exact = np.abs(E - w0) < 1e-12
    if (near & ~exact).any():
        return None
    return thr


def radii_for(p, nums):
    from ase.data import covalent_radii
    from ase.data.vdw_alvarez import vdw_radii
    if p["radii"] == "custom":
        r = np.random.RandomState(p["custom_seed"]).uniform(0.5, 1.6, len(nums))
        return r, r
    if p["radii"] == "covalent":
        return "covalent", covalent_radii[nums]
    v = vdw_radii[nums]
    if p["radii"] == "vdw":
        return "vdw", v
    return "vdw_covalent", np.where(np.isnan(v), covalent_radii[nums], v)


def install_counters():
    """Wrap the three private SBC passes to observe merging / multi-assignment / cleaning (classification only)."""
    from matid.clustering import SBC
    if getattr(SBC, "_verif_wrapped", False):
        return True
    try:
        om, ol, oc = SBC._merge_clusters, SBC._localize_clusters, SBC._clean_clusters

        def w_merge(self, system, clusters, *a, **k):
            n0 = len(clusters)
            out = om(self, system, clusters, *a, **k)
            ACT["merged"] = n0 - len(out)
            return out

        def w_loc(self, system, clusters, *a, **k):
            cnt = collections.Counter(i for c in clusters for i in c.indices)
            ACT["multi"] = sum(1 for v in cnt.values() if v > 1)
            return ol(self, system, clusters, *a, **k)

        def w_clean(self, clusters, *a, **k):
            n0 = sum(len(c.indices) for c in clusters)
            out = oc(self, clusters, *a, **k)
            ACT["cleaned"] = n0 - sum(len(c.indices) for c in out)
            return out
        SBC._merge_clusters, SBC._localize_clusters, SBC._clean_clusters = w_merge, w_loc, w_clean
        SBC._verif_wrapped = True
        return True
    except Exception:
        return False


def snapshot(s):
    return (s.get_positions().copy(), s.get_atomic_numbers().copy(), np.asarray(s.get_cell()).copy(), np.asarray(s.get_pbc()).copy(),
            {k: np.array(v).copy() for k, v in s.arrays.items()}, dict(s.info))


def same_snapshot(a, b):
    if not all(np.array_equal(x, y) for x, y in zip(a[:4], b[:4])):
        return False
    if set(a[4]) != set(b[4]) or any(not np.array_equal(a[4][k], b[4][k]) for k in a[4]):
        return False
    return a[5] == b[5]


def cluster_signature(cl):
    sig = []
    for c in cl:
        cell = c.get_cell()
        sig.append((list(int(i) for i in c.indices), sorted(int(z) for z in c.species),
                    None if cell is None else (np.asarray(cell.get_cell()).round(10).tolist(), cell.get_positions().round(10).tolist(), cell.get_atomic_numbers().tolist(), np.asarray(cell.get_pbc()).tolist())))
    return sig


def run_sbc(s, p, rarg, sbc=None):
    from matid.clustering import SBC
    sbc = sbc or SBC()
    return sbc, sbc.get_clusters(s, bond_threshold=p["bond_threshold"], pos_tol=p["pos_tol"], max_cell_size=p["max_cell_size"],
                                 merge_threshold=p["merge_threshold"], radii=rarg, seed=p["seed"])


def run_case(desc):
    out = Outcome()
    s = messy.build(desc["structure"])
    p = desc["params"]
    if messy.too_skewed(s):
        out.discard = "resource-bound:strongly-sheared-cell"
        return out
    nums = s.get_atomic_numbers()
    n = len(s)
    rarg, rad = radii_for(p, nums)
    if np.isnan(rad).any():
        out.discard = "element-without-radius"
        return out
    pbc = np.asarray(s.get_pbc())
    cell = np.asarray(s.get_cell())
    zero_per = any((not cell[i].any()) and pbc[i] for i in range(3))
    out.cls(*messy.labels(desc["structure"], s), "radii=" + p["radii"])
    if desc.get("crit"):
        thr = critical_threshold(s, np.asarray(rad, float), desc["crit"])
        if thr is not None:
            p = dict(p, bond_threshold=thr)
            out.cls("threshold-next-to-deciding-contact")
    counters = install_counters()
    ACT.clear()
    snap = snapshot(s)
    ok, r = call(run_sbc, s, p, rarg)
    if not ok:
        if isinstance(r, ValueError) and zero_per:
            out.cls("valueerror-zero-periodic-vector")
            return out
        return out.fail("returns-normally", "get_clusters raised %r (pbc %s, %d atoms, family %s)" % (r, pbc.tolist(), n, desc["structure"]["family"]), key="exc:" + exc_key(r))
    sbc, cl = r
    act = dict(ACT)
    if not same_snapshot(snap, snapshot(s)):
        out.fail("input-untouched", "get_clusters modified the caller's structure")
    if not isinstance(cl, list):
        return out.fail("returns-list", "returned %r" % type(cl))
    allidx = []
    D = None
    for k, c in enumerate(cl):
        ii = [int(i) for i in c.indices]
        if len(ii) == 0:
            out.fail("non-empty", "cluster %d has no atoms" % k)
            continue
        if len(set(ii)) != len(ii):
            out.fail("duplicate-free", "cluster %d lists an atom twice" % k)
        if min(ii) < 0 or max(ii) >= n:
            out.fail("in-range", "cluster %d has index out of range" % k)
            continue
        allidx += ii
        if not set(nums[ii].tolist()) <= set(int(x) for x in c.species):
            out.fail("species", "cluster %d contains Z=%s but lists species %s" % (k, sorted(set(nums[ii].tolist())), sorted(int(x) for x in c.species)))
        pc = c.get_cell()
        if pc is None or int(np.sum(pc.get_pbc())) not in (2, 3):
            out.fail("prototype-cell", "cluster %d: prototype cell %s" % (k, None if pc is None else np.asarray(pc.get_pbc()).tolist()))
        if not zero_per:
            if D is None:
                cc = oim.completed(cell)
                D = omic.pair_table(s.get_positions(), cc, pbc)[2]
            E = D[np.ix_(ii, ii)] - rad[ii][:, None] - rad[ii][None, :]
            adj = E <= p["bond_threshold"] + 1e-7
            seen = {0}
            stack = [0]
            while stack:
                u = stack.pop()
                for v in np.where(adj[u])[0]:
                    if int(v) not in seen:
                        seen.add(int(v))
                        stack.append(int(v))
            if len(seen) != len(ii):
                out.fail("connected", "cluster %d (%d atoms) splits into several bonded components (largest reachable %d) under bond_threshold %.3f" % (k, len(ii), len(seen), p["bond_threshold"]))
    if len(set(allidx)) != len(allidx):
        out.fail("pairwise-disjoint", "an atom belongs to two clusters")
    # determinism: fresh instance and same instance
    sig = cluster_signature(cl)
    ok, r2 = call(run_sbc, s, p, rarg)
    if ok and cluster_signature(r2[1]) != sig:
        out.fail("deterministic", "a second call on a fresh SBC() with identical arguments returns different clusters")
    # history: the same instance clusters a different structure in between
    if n >= 2:
        if p["seed"] % 2:
            other = s[[i for i in range(n) if i % 2 == 0]]
        else:
            other = s[list(np.random.RandomState(p["seed"] % (2 ** 31)).permutation(n))]      # same cell, same count, other order
        ro, _ = radii_for(p, other.get_atomic_numbers())
        call(run_sbc, other, p, ro, sbc)
        ok, r4 = call(run_sbc, s, p, rarg, sbc)
        if ok and cluster_signature(r4[1]) != sig:
            out.fail("deterministic-same-instance", "the same SBC instance returns different clusters for the same input after clustering another structure in between")
    else:
        ok, r3 = call(run_sbc, s, p, rarg, sbc)
        if ok and cluster_signature(r3[1]) != sig:
            out.fail("deterministic-same-instance", "a second call on the same SBC instance returns different clusters")
    unassigned = n - len(set(allidx))
    nc = len(cl)
    out.cls("nclusters=%s" % (nc if nc < 3 else ">=3"))
    for kk in ("merged", "multi", "cleaned"):
        if act.get(kk):
            out.cls("sbc-" + kk)
    if not counters:
        out.cls("counters-unavailable")
    out.nontrivial = bool(nc >= 1 and (nc >= 2 or unassigned > 0 or act.get("merged") or act.get("multi") or act.get("cleaned")))
    return out


def extra_engine(tier, seed, work):
    """rule-based state machine over ONE SBC object: any sequence of (structure, parameter set) calls must give what a fresh
    object gives for the same arguments (vlib/stateful_sbc.py)"""
    from vlib import stateful_sbc
    return stateful_sbc.campaign(ID, "sbc", seed, 5 if tier == "quick" else 80)
