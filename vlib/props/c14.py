"""C14 - built-in space-group tables agree with the International Tables, all 230 groups (finite tables, enumerated)."""
import numpy as np
from hypothesis import strategies as st

from vlib.case import Outcome, call, exc_key
from vlib.gen import cells as gc
from vlib.gen import crystals as gx
from vlib.oracles import spgref, wyexpr

ID = "C14"
LEVEL = "exploration"
RULE = ("enumerated completely: 230 SPACE_GROUP_INFO entries, 1731 Wyckoff positions, 982 normalizers; each item is evaluated k times with "
        "Hypothesis-drawn free parameters, lattice constants and anchor orbits; every table item is a distinct non-trivial case (distinct = SHA-1 of item + drawn values)")
ASSUMPTIONS = [
    "reference: spglib Hall-symbol database in the standard setting (lowest Hall number per group) and the letters spglib assigns to probe crystals built on spglib's own standardised lattice with an identity re-standardisation",
    "probe crystals that spglib promotes to another group or re-standardises non-trivially are retried with the next draw; what remains is reported as unverified (coverage.unverified), never as held",
    "free parameters are drawn away from special values; draws producing two orbit points closer than 1e-3 (fractional) without coinciding are discarded",
]
PREC = 1e-6


def EXHAUSTIVE(tier):
    return True


def plan(tier):
    return {"n_random": 0, "item_draws": 1 if tier == "quick" else 5, "time_s": 600 if tier == "quick" else 1700, "shrink_evals": 0}


def _tables():
    from matid.data.symmetry_data import SPACE_GROUP_INFO, WYCKOFF_SETS, CHIRALITY_PRESERVING_EUCLIDEAN_NORMALIZERS
    return SPACE_GROUP_INFO, WYCKOFF_SETS, CHIRALITY_PRESERVING_EUCLIDEAN_NORMALIZERS


def items(tier):
    info, wy, norm = _tables()
    out = []
    for sg in range(1, 231):
        out.append({"t": "group", "sg": sg})
    for sg in range(1, 231):
        for l in sorted(k for k in wy.get(sg, {}) if k != "translations"):
            out.append({"t": "wyckoff", "sg": sg, "letter": l})
    for sg in sorted(norm):
        for i in range(len(norm[sg])):
            out.append({"t": "normalizer", "sg": sg, "index": i})
    return out


u01 = gc.ffloat(0.0, 1.0)


@st.composite
def _draws(draw, item):
    return {"item": item,
            "raw": [gc.generic(draw, 17 + j, 4.0, 8.0) for j in range(3)] + [gc.generic(draw, 20 + j, 75.0, 105.0) for j in range(3)],
            "anchors": [[gc.generic(draw, 3 * a + j, 0.05, 0.95) for j in range(3)] for a in range(5)],
            "u": [gc.generic(draw, 15 + j) for j in range(3)],
            "q": [gc.generic(draw, 24 + j, 0.05, 0.95) for j in range(3)]}


def item_strategy(item, tier):
    return _draws(item)


class Probe:
    """Probe crystals on spglib's standardised lattice: names the Wyckoff letter of a point in the standard setting."""

    def __init__(self, sg, raw, anchors):
        import spglib
        self.sg = sg
        self.R, self.t = spgref.operations(sg)
        self.ok = False
        cell = gc.cellpar_to_cell(*spgref.lattice_cellpar(sg, raw))
        orbs = [spgref.orbit(self.R, self.t, np.array(a)) for a in anchors[:3]]
        pts = np.vstack(orbs)
        # (an anchor that happens to sit on a special position has a shorter orbit: the species list follows the actual sizes)
        nums = [z for z, o in zip((1, 2, 3), orbs) for _ in range(len(o))]
        ds = spglib.get_symmetry_dataset((cell, pts, nums), symprec=1e-4)
        if ds is None or ds.number != sg:
            return
        self.cell = np.array(ds.std_lattice)
        self.anchors = [spgref.orbit(self.R, self.t, np.array(a)) for a in anchors[3:5]]
        self.ok = True

    def letter_of(self, p):
        import spglib
        tgt = spgref.orbit(self.R, self.t, np.asarray(p, float))
        pts = np.vstack(self.anchors + [tgt])
        nums = [1] * len(self.anchors[0]) + [2] * len(self.anchors[1]) + [50] * len(tgt)
        ds = spglib.get_symmetry_dataset((self.cell, pts, nums), symprec=1e-4)
        if ds is None or ds.number != self.sg:
            return None
        ident = np.allclose(ds.transformation_matrix, np.eye(3), atol=1e-6) and np.allclose(spgref.wrapd(ds.origin_shift), 0, atol=1e-6)
        if not ident:
            return None
        return ds.wyckoffs[-1], len(tgt)


def generic_v(u):
    # offsets/multipliers chosen pairwise incommensurate so that "nice" drawn values never hit a special position
    return {"x": 0.0371 + 0.3917 * u[0], "y": 0.0533 + 0.4111 * u[1] * 0.97, "z": 0.0719 + 0.3811 * u[2] * 1.03}


def same_pointset(A, B, tol=1e-5):
    A = np.asarray(A, float) % 1.0
    B = np.asarray(B, float) % 1.0
    if len(A) != len(B):
        return False
    used = set()
    for a in A:
        d = np.abs(spgref.wrapd(B - a)).max(axis=1)
        j = int(np.argmin(d))
        if d[j] > tol or j in used:
            return False
        used.add(j)
    return True


def near_degenerate(P, lo=1e-5, hi=1e-3):
    P = np.asarray(P, float)
    for i in range(len(P)):
        d = np.abs(spgref.wrapd(P[i + 1:] - P[i])).max(axis=1) if i + 1 < len(P) else np.array([])
        if ((d > lo) & (d < hi)).any():
            return True
    return False


_UNVERIFIED = {}


def shard_extra():
    return _UNVERIFIED


def merge_extra(parts, tier):
    tot = {}
    for p in parts:
        tot.update(p)
    return {"unverified": sorted(tot)[:200], "unverified_count": len(tot)}


def run_case(desc):
    item = desc["item"]
    out = Outcome()
    out.nontrivial = True
    out.cls("table=" + item["t"])
    info, wy, norm = _tables()
    sg = item["sg"]
    if item["t"] == "group":
        return _group(desc, out, info)
    probe = Probe(sg, desc["raw"], desc["anchors"])
    if item["t"] == "wyckoff":
        return _wyckoff(desc, out, wy, probe)
    return _normalizer(desc, out, wy, norm, probe)


def _group(desc, out, info):
    from matid.symmetry import SymmetryAnalyzer
    sg = desc["item"]["sg"]
    key = "group:%d" % sg
    e = info.get(sg)
    if e is None:
        return out.fail("group-info-present", "no SPACE_GROUP_INFO entry for %d" % sg, key=key + ":missing")
    ref_bl = spgref.crystal_system(sg), spgref.bravais_pearson(sg), spgref.point_group(sg)
    bl = e["bravais_lattice"]
    merged = bl[0] + ("S" if bl[1] in "ABC" else bl[1])
    if e["crystal_system"] != ref_bl[0]:
        out.fail("group-crystal-system", "table %r, International Tables %r" % (e["crystal_system"], ref_bl[0]), key=key + ":crystal_system")
    if merged != ref_bl[1]:
        out.fail("group-bravais", "table %r, International Tables %r" % (bl, ref_bl[1]), key=key + ":bravais")
    if e["pointgroup"] != ref_bl[2]:
        out.fail("group-pointgroup", "table %r, International Tables %r" % (e["pointgroup"], ref_bl[2]), key=key + ":pointgroup")
    # through the public API on a generic probe crystal
    cdesc = {"sg": sg, "orbits": [{"letter": gx.letters(sg)[-1], "q": desc["anchors"][0], "Z": 14}, {"letter": gx.letters(sg)[-1], "q": desc["anchors"][1], "Z": 8}], "raw": desc["raw"]}
    cell, frac, nums, status = gx.conditioned(cdesc)
    if status != "ok":
        out.cls("group-probe-" + status)
        return out
    ds = gx.well_conditioned(cell, frac @ cell, nums)
    if ds is None or ds.number != sg:
        out.cls("group-probe-promoted")
        return out
    at = gx.make_atoms(cell, frac @ cell, nums)
    ok, r = call(lambda: (lambda a: (a.get_space_group_number(), a.get_crystal_system(), a.get_bravais_lattice(), a.get_point_group()))(SymmetryAnalyzer(at, symmetry_tol=1e-3)))
    if not ok:
        return out.fail("returns-normally", "%r" % r, key=key + ":exc:" + exc_key(r))
    if r[0] != sg:
        out.cls("group-probe-promoted")
        return out
    if (r[1], r[2], r[3]) != ref_bl:
        out.fail("group-api", "analyzer reports %r, International Tables %r" % (r[1:], ref_bl), key=key + ":api")
    out.cls("group-api-checked")
    # the same through an analyser that answered these questions for another crystal first and was handed this one via set_system()
    from ase.build import bulk
    aux = bulk("Mg", "hcp", a=3.21, c=5.21) if spgref.crystal_system(sg) == "cubic" else bulk("Fe", "bcc", a=2.87, cubic=True)

    def reused():
        a = SymmetryAnalyzer(aux, symmetry_tol=1e-3)
        a.get_crystal_system(), a.get_bravais_lattice(), a.get_point_group(), a.get_space_group_number()
        a.set_system(at)
        return a.get_space_group_number(), a.get_crystal_system(), a.get_bravais_lattice(), a.get_point_group()
    ok, r2 = call(reused)
    if not ok:
        return out.fail("returns-normally", "re-used analyser: %r" % r2, key=key + ":exc-reused:" + exc_key(r2))
    if r2[0] == sg and (r2[1], r2[2], r2[3]) != ref_bl:
        out.fail("group-api-after-set_system", "analyser re-used through set_system() reports %r for a group-%d crystal, International Tables %r" % (r2[1:], sg, ref_bl), key=key + ":api-after-set_system")
    return out


def _wyckoff(desc, out, wy, probe):
    sg, l = desc["item"]["sg"], desc["item"]["letter"]
    key = "wyckoff:%d:%s" % (sg, l)
    W = wy[sg]
    w = W[l]
    v = generic_v(desc["u"])
    exprs = w["expressions"]
    Ms = np.asarray(w["matrices"], float)
    Cs = np.asarray(w["constants"], float)
    trans = np.asarray(W["translations"], float).reshape(-1, 3)
    n_expr = len(exprs)
    # (1) algebraic expressions == numeric matrices/constants
    try:
        P = np.array([wyexpr.point(e, v) for e in exprs])
        vars_expr = wyexpr.variables([c for e in exprs for c in e])
    except ValueError as e:
        return out.fail("wyckoff-expression-parse", str(e), key=key + ":parse")
    if Ms.shape != (n_expr, 3, 3) or Cs.shape != (n_expr, 3):
        return out.fail("wyckoff-shapes", "matrices %s constants %s for %d expressions" % (Ms.shape, Cs.shape, n_expr), key=key + ":shapes")
    Wv = np.array([v["x"], v["y"], v["z"]])
    num = np.einsum("i,kij->kj", Wv, Ms) + Cs
    bad = np.abs(num - P).max(axis=1) > PREC
    if bad.any():
        k = int(np.where(bad)[0][0])
        out.fail("wyckoff-expr-vs-matrix", "expression %d %s evaluates to %s, W.M+C gives %s" % (k, exprs[k], np.round(P[k], 6).tolist(), np.round(num[k], 6).tolist()), key=key + ":matrix")
    if set(w["variables"]) != vars_expr:
        out.fail("wyckoff-variables", "variables %s, expressions use %s" % (sorted(w["variables"]), sorted(vars_expr)), key=key + ":variables")
    # (1b) the tables must still be right AFTER the public API has been used on crystals of this group (a getter that
    #      mutates the shared tables in place corrupts them for every later analysis in the same process)
    try:
        from matid.symmetry import SymmetryAnalyzer
        ls = gx.letters(sg)
        use = [ls[0]] + ([l] if l != ls[0] else [])
        cdesc = {"sg": sg, "orbits": [{"letter": x, "q": desc["anchors"][i], "Z": 14 + 12 * i} for i, x in enumerate(use)], "raw": desc["raw"]}
        cell, frac, nums, status = gx.conditioned(cdesc)
        if status == "ok":
            an = SymmetryAnalyzer(gx.make_atoms(cell, frac @ cell, nums), symmetry_tol=1e-3)
            an.get_has_free_wyckoff_parameters(); an.get_wyckoff_sets_conventional(True); an.get_material_id(); an.get_primitive_system()
            out.cls("api-exercised")
    except Exception:
        pass        # failures of the analyser itself are C05-C08's business; here only the tables are judged
    sgn_all = sorted(k for k in W if k != "translations")
    for other in sgn_all:
        try:
            ve = wyexpr.variables([c for e in W[other]["expressions"] for c in e])
        except ValueError:
            continue
        if set(W[other]["variables"]) != ve:
            out.fail("wyckoff-variables-after-use", "after using the analyser on a group-%d crystal, position %s lists variables %s but its expressions use %s"
                     % (sg, other, sorted(W[other]["variables"]), sorted(ve)), key="wyckoff:%d:%s:variables-after-use" % (sg, other))
            break
    # (2) closed orbit of the standard-setting group with the tabulated multiplicity
    allp = np.vstack([P] + [P + t for t in trans])
    R, t = spgref.operations(sg)
    orb = spgref.orbit(R, t, P[0])
    if near_degenerate(orb) or near_degenerate(allp):
        out.discard = "near-degenerate-parameters"
        return out
    mult = n_expr * (len(trans) + 1)
    if len(orb) != mult:
        out.fail("wyckoff-multiplicity", "orbit of the first expression under the standard-setting group has %d points, table lists %d" % (len(orb), mult), key=key + ":multiplicity")
    elif not same_pointset(allp, orb):
        out.fail("wyckoff-closed-orbit", "tabulated positions are not the orbit of the first one under the standard-setting group", key=key + ":orbit")
    # (3) the letter
    if not probe.ok:
        out.cls("probe-unavailable")
        _UNVERIFIED[key + ":letter"] = 1
        return out
    r = probe.letter_of(P[0])
    if r is None:
        _UNVERIFIED[key + ":letter"] = 1
        out.cls("letter-unverified")
    else:
        _UNVERIFIED.pop(key + ":letter", None)
        out.cls("letter-verified")
        if r[0] != l:
            out.fail("wyckoff-letter", "spglib names the tabulated position %s, table says %s" % (r[0], l), key=key + ":letter")
    return out


def _normalizer(desc, out, wy, norm, probe):
    sg, idx = desc["item"]["sg"], desc["item"]["index"]
    key = "normalizer:%d:%d" % (sg, idx)
    nz = norm[sg][idx]
    T = np.asarray(nz["transformation"], float)
    perm = nz["permutations"]
    if T.shape != (4, 4) or np.abs(T[3] - [0, 0, 0, 1]).max() > 0:
        return out.fail("normalizer-shape", "not an affine 4x4 matrix", key=key + ":shape")
    A, s = T[:3, :3], T[:3, 3]
    det = np.linalg.det(A)
    if abs(abs(det) - 1) > 1e-9:
        return out.fail("normalizer-unimodular", "det = %g" % det, key=key + ":det")
    # (1) maps the group onto itself: T g T^-1 in G (mod lattice translations)
    R, t = spgref.operations(sg)
    Ainv = np.linalg.inv(A)
    have = {}
    for Rk, tk in zip(R, t):
        have.setdefault(tuple(Rk.flatten()), []).append(tk)
    for Rk, tk in zip(R, t):
        R2 = A @ Rk @ Ainv
        t2 = A @ tk + s - R2 @ s
        R2i = np.rint(R2)
        cands = have.get(tuple(int(x) for x in R2i.flatten())) if np.abs(R2 - R2i).max() < 1e-9 else None
        if cands is None or not any(np.abs(spgref.wrapd(t2 - c)).max() < 1e-6 for c in cands):
            out.fail("normalizer-maps-group", "T g T^-1 is not an operation of the standard-setting group (g: R=%s t=%s)" % (Rk.flatten().tolist(), np.round(tk, 4).tolist()), key=key + ":conjugation")
            break
    # (2) metric of a generic lattice of the crystal system
    C = gc.cellpar_to_cell(*spgref.lattice_cellpar(sg, desc["raw"]))
    G = C @ C.T
    if np.abs(A.T @ G @ A - G).max() > 1e-8 * np.abs(G).max():
        out.fail("normalizer-metric", "linear part does not preserve the metric of a generic %s lattice" % spgref.crystal_system(sg), key=key + ":metric")
    # (3) handedness for chiral groups
    if sg in spgref.sohncke() and det < 0:
        out.fail("normalizer-handedness", "group %d is a Sohncke group but the tabulated 'chirality-preserving' normalizer has det %+.0f" % (sg, det), key=key + ":handedness")
    # (4) letter permutation
    letters = gx.letters(sg)
    if sorted(perm.keys()) != sorted(letters) or sorted(perm.values()) != sorted(letters):
        out.fail("normalizer-permutation-bijection", "permutation is not a bijection of the group's letters %s: %s" % (letters, perm), key=key + ":bijection")
        return out
    if not probe.ok:
        out.cls("probe-unavailable")
        _UNVERIFIED[key + ":letters"] = 1
        return out
    nver = 0
    for l in letters:
        p = gx.point_on(sg, l, np.array(desc["q"]) * 0.9 + 0.017 * (1 + letters.index(l) % 5))
        r1 = probe.letter_of(p)
        if r1 is None or r1[0] != l:
            _UNVERIFIED["%s:letter-%s" % (key, l)] = 1
            continue
        r2 = probe.letter_of(A @ p + s)
        if r2 is None:
            _UNVERIFIED["%s:letter-%s" % (key, l)] = 1
            continue
        nver += 1
        if r2[0] != perm[l]:
            out.fail("normalizer-permutation", "letter %s is mapped to %s (spglib), table says %s" % (l, r2[0], perm[l]), key=key + ":permutation")
            break
    out.cls("perm-letters-verified=%s" % ("all" if nver == len(letters) else "some" if nver else "none"))
    return out
