"""C17 - classifier output is consistent with dimensionality and with its own region."""
import numpy as np
from hypothesis import strategies as st

from vlib.case import Outcome, call, exc_key
from vlib.gen import cells as gc
from vlib.gen import messy
from vlib.oracles import netrank
from vlib.props import c01

ID = "C17"
LEVEL = "exploration"
RULE = ("case = messy structure (<=150 atoms; full-rank cell with any pbc, or no pbc at all with any cell; extra stratum of slabs periodic in their plane "
        "with vacancies / substitutions / adsorbates / rattling) x classifier parameters (default or varied pos_tol, max_cell_size, cluster_threshold, "
        "bond_threshold, min_coverage); distinct = SHA-1 of the descriptor; non-trivial = the independent dimensionality of the wrapped structure is 2 "
        "(the only cases that reach the region search)")
ASSUMPTIONS = [
    "resource bound: structures whose longest periodic cell vector exceeds 60x the smallest periodic cell height (strongly sheared descriptions of a small lattice) are discarded and counted - MatID needs gigabytes for them and a memory kill is not a verdict",
    "expected class from an independent dimensionality oracle (vlib/oracles/netrank.py) on the wrapped structure with covalent radii and the classifier's cluster_threshold",
    "cases with a bond within 1e-7 of the threshold or with rank over Q != rank over GF(2) are discarded and counted",
    "domain: cell of non-zero volume, or entirely non-periodic (the classifier's documented ValueError for zero-volume periodic cells is outside the property)",
]


def plan(tier):
    return {"n_random": 600 if tier == "quick" else 8000, "time_s": 700 if tier == "quick" else 1750, "shrink_evals": 30 if tier == "quick" else 200}


@st.composite
def _cases(draw):
    s = draw(messy.structures(max_atoms=150, full_rank_only=True, slab_bias=True))
    if not any(s["pbc"]) and draw(st.integers(0, 4)) == 0:
        s["zero"] = [draw(st.booleans()) for _ in range(3)]
    p = {}
    if draw(st.booleans()):
        # explicit magnitudes + jitter (Hypothesis' bounded floats cluster at the lower end and near simple values, so a plain
        # range would hardly ever give "small max_cell_size with a large cluster_threshold")
        mag = lambda vals, j: st.builds(lambda v, e: v + e, st.sampled_from(vals), gc.ffloat(0.0, j))
        p = {"pos_tol": draw(gc.ffloat(0.1, 0.9)), "max_cell_size": draw(mag([4.0, 12.0, 5.0, 8.0, 6.0, 13.0], 1.0)),
             "cluster_threshold": draw(mag([3.5, 1.0, 2.0, 3.0, 5.0], 1.0)),
             "bond_threshold": draw(gc.ffloat(0.4, 1.0)), "min_coverage": draw(gc.ffloat(0.2, 0.8))}
        # the documented input forms of pos_tol: one number, a list of numbers (the default is a list of two), a numpy array
        form = draw(st.sampled_from(["float", "list", "array", "list2", "array2"]))
        if form != "float":
            p["pos_tol_form"] = form
            if form.endswith("2"):
                p["pos_tol2"] = draw(gc.ffloat(0.1, 0.9))
    return {"structure": s, "params": p}


def ctor_kwargs(p):
    """descriptor parameters -> Classifier keyword arguments (a new list / array object per call of this function)"""
    kw = {k: v for k, v in p.items() if k not in ("pos_tol_form", "pos_tol2")}
    form = p.get("pos_tol_form")
    if form:
        vals = [float(p["pos_tol"])] + ([float(p["pos_tol2"])] if form.endswith("2") else [])
        kw["pos_tol"] = np.array(sorted(vals)) if form.startswith("array") else sorted(vals)
    return kw


def strategy(tier):
    return _cases()


def run_case(desc):
    from ase.data import covalent_radii
    from matid.classification.classifier import Classifier
    import matid.classification.classifications as mc
    out = Outcome()
    s = messy.build(desc["structure"])
    p = desc["params"]
    n = len(s)
    pbc = np.asarray(s.get_pbc())
    cell = np.asarray(s.get_cell())
    if messy.too_skewed(s):
        out.discard = "resource-bound:strongly-sheared-cell"
        return out
    if pbc.any() and abs(np.linalg.det(cell)) < 1e-6:
        out.discard = "outside-domain:zero-volume-periodic"
        return out
    thr = float(p.get("cluster_threshold", 3.5))
    rad = covalent_radii[s.get_atomic_numbers()]
    w = s.copy()
    if pbc.any():
        w.wrap()
    h = gc.heights(cell) if abs(np.linalg.det(cell)) > 1e-9 else np.ones(3)
    if pbc.any() and (thr + 2 * rad.max()) / h[pbc].min() > 6:
        out.discard = "too-many-images"
        return out
    rq, r2, amb, ncomp = netrank.dimensionality(w.get_positions(), cell, pbc, rad, thr)
    if amb:
        out.discard = "ambiguous-bond"
        return out
    if rq is not None and rq != r2:
        out.discard = "rankQ!=rankGF2"
        return out
    D = None if rq is None else (rq if pbc.any() else 0)
    out.cls(*messy.labels(desc["structure"], s), "D=%s" % D, "params=" + ("varied" if p else "default"), "pos_tol_form=" + str(p.get("pos_tol_form", "float" if p else "default")))
    out.nontrivial = bool(D == 2)
    snap = c01.snapshot(s)
    ok, c = call(lambda: Classifier(**ctor_kwargs(p)).classify(s))
    if not ok:
        return out.fail("returns-normally", "classify raised %r (D=%s, pbc %s, %d atoms, family %s)" % (c, D, pbc.tolist(), n, desc["structure"]["family"]), key="exc:" + exc_key(c))
    if not c01.same_snapshot(snap, c01.snapshot(s)):
        out.fail("input-untouched", "classify modified the caller's structure")
    t = type(c)
    out.cls("class=" + t.__name__)
    exp = {None: (mc.Unknown,), 0: (mc.Atom,) if n == 1 else (mc.Class0D,), 1: (mc.Class1D,), 3: (mc.Class3D,), 2: (mc.Class2D, mc.Surface, mc.Material2D)}[D]
    if t not in exp:
        out.fail("class-matches-dimensionality", "dimensionality of the wrapped structure is %s but the class is %s (%d atoms, pbc %s)" % (D, t.__name__, n, pbc.tolist()),
                 key="class-matches-dimensionality:D=%s:%s" % (D, t.__name__))
    if t in (mc.Surface, mc.Material2D):
        out.cls("with-region")
        ok, r = call(lambda: (set(int(i) for i in c.basis_indices), set(int(i) for i in c.outliers), c.prototype_cell))
        if not ok:
            out.fail("returns-normally", "region accessors raised %r" % r, key="exc-region:" + exc_key(r))
        else:
            b, o, pc = r
            if pc is None:
                out.fail("region-has-prototype-cell", "Surface/Material2D without prototype cell")
            if b & o or (b | o) != set(range(n)):
                out.fail("region-partition", "basis atoms and outliers do not partition the atoms (%d + %d of %d, overlap %d)" % (len(b), len(o), n, len(b & o)))
            if len(b) / n < float(p.get("min_coverage", 0.5)) - 1e-12:
                out.fail("region-coverage", "region covers %.3f < min_coverage %.3f" % (len(b) / n, float(p.get("min_coverage", 0.5))))
    # history on ONE classifier instance: s, a different structure, s again - the answer for s must not depend on what the
    # instance classified before
    clf = Classifier(**ctor_kwargs(p))
    other = s[[i for i in range(n) if i % 2 == 0]] if n >= 2 else s
    ok, h = call(lambda: (clf.classify(s), clf.classify(other), clf.classify(s)))
    if ok:
        h1, _, h3 = h
        if type(h1) is not t or type(h3) is not t:
            out.fail("repeatable" if type(h1) is not t else "instance-history", "a second Classifier instance gives %s, then (after classifying another structure) %s; the first instance gave %s" % (type(h1).__name__, type(h3).__name__, t.__name__))
        elif t in (mc.Surface, mc.Material2D) and (set(h3.basis_indices) != set(c.basis_indices) or set(h1.basis_indices) != set(c.basis_indices)):
            out.fail("instance-history", "region of the same structure differs after the instance classified another structure")
    return out


def extra_engine(tier, seed, work):
    """rule-based state machine over ONE Classifier object: classify(structure k) in any order must give what a fresh
    classifier gives (vlib/stateful_sbc.py)"""
    from vlib import stateful_sbc
    return stateful_sbc.campaign(ID, "cls", seed, 8 if tier == "quick" else 80)
