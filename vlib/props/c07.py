"""C07 - Wyckoff sets are exactly the symmetry orbits of the conventional cell."""
import numpy as np

from vlib.case import Outcome, call, exc_key
from vlib.oracles import spgref
from vlib.props import symcommon as sc

ID = "C07"
LEVEL = "exploration"
RULE = ("same crystal family and pattern enumeration as C05; distinct = SHA-1 of the descriptor; non-trivial = at least two Wyckoff sets share an "
        "element, or the letters MatID reports differ from the letters spglib gave the input (a normalizer permuted them)")
ASSUMPTIONS = sc.FILTER_ASSUMPTIONS + [
    "space-group operations of the returned conventional cell come from spglib.get_symmetry on that cell (independent of MatID's tables)",
    "letters are compared atom by atom with spglib's assignment on the returned cell when spglib's re-standardisation of that cell is the identity; otherwise the case is only checked for a consistent letter bijection and counted as 'restandardised'",
]
_COVER = {}


def EXHAUSTIVE(tier):
    return False


def plan(tier):
    return {"n_random": 3000 if tier == "quick" else 40000, "item_draws": 1, "time_s": 500 if tier == "quick" else 1750}


def items(tier):
    return sc.patterns(1 if tier == "quick" else 3)


def item_strategy(item, tier):
    return sc.pattern_strategy(item)


def strategy(tier):
    return sc.case_strategy()


def shard_extra():
    return _COVER


def merge_extra(parts, tier):
    return sc.cover_merge(parts)


def run_case(desc):
    import spglib
    from matid.symmetry import SymmetryAnalyzer
    out = Outcome()
    c = sc.prepare(desc, out)
    if c is None:
        return out

    def analyse():
        an = sc.analyzer_for(c, desc, out)
        conv = an.get_conventional_system()
        return an, conv, an.get_wyckoff_sets_conventional(False), np.array(an.get_wyckoff_letters_conventional()), np.array(an.get_equivalent_atoms_conventional())
    ok, r = call(analyse)
    if not ok:
        return out.fail("returns-normally", "%r" % r, key="exc:" + exc_key(r))
    an, conv, sets, lc, ec = r
    _COVER[c.sg] = _COVER.get(c.sg, 0) + 1
    n = len(conv)
    cc = np.asarray(conv.get_cell(), float)
    sp = sc.frac_of(conv)
    nums = conv.get_atomic_numbers()
    syms = conv.get_chemical_symbols()
    if len(lc) != n or len(ec) != n:
        return out.fail("per-atom-arrays", "letters %d / equivalent atoms %d entries for %d atoms" % (len(lc), len(ec), n))
    # partition
    allidx = sorted(int(i) for s in sets for i in s.indices)
    if allidx != list(range(n)):
        out.fail("partition", "set indices do not partition the %d atoms of the conventional cell" % n)
        return out
    # independent operations and letters of the returned cell
    cellt = (cc, sp, nums)
    sym = spglib.get_symmetry(cellt, symprec=c.otol)
    d3 = spglib.get_symmetry_dataset(cellt, symprec=c.otol)
    if sym is None or d3 is None:
        out.discard = "spglib-none-on-returned"
        return out
    ident = np.allclose(d3.transformation_matrix, np.eye(3), atol=1e-6) and np.allclose(spgref.wrapd(d3.origin_shift), 0, atol=1e-6)
    Rs, ts = np.asarray(sym["rotations"]), np.asarray(sym["translations"])
    seen_pairs = {}
    for s in sets:
        ii = np.array(s.indices, int)
        if len(set(nums[ii].tolist())) != 1 or syms[ii[0]] != s.element or int(nums[ii[0]]) != int(s.atomic_number):
            out.fail("one-element-per-set", "set %s/%s mixes elements or mislabels them" % (s.wyckoff_letter, s.element))
        if set(lc[ii].tolist()) != {s.wyckoff_letter}:
            out.fail("one-letter-per-set", "per-atom letters %s in a set labelled %s" % (sorted(set(lc[ii].tolist())), s.wyckoff_letter))
        if s.multiplicity != len(ii):
            out.fail("multiplicity", "multiplicity %r for a set of %d atoms" % (s.multiplicity, len(ii)))
        # orbit closure from every atom of the set
        for a in (ii[0], ii[-1]):
            img = np.einsum("oij,j->oi", Rs, sp[a]) + ts
            hit = set()
            bad = False
            for q in img:
                d = sp - q
                d -= np.rint(d)
                dist = np.linalg.norm(d @ cc, axis=1)
                dist[nums != nums[a]] = 1e9
                k = int(np.argmin(dist))
                if dist[k] > 5 * c.otol:
                    bad = True
                    break
                hit.add(k)
            if bad:
                out.fail("orbit-closure", "an image of atom %d under the cell's space-group operations is not an atom" % a)
                break
            if hit != set(ii.tolist()):
                out.fail("orbit-equals-set", "orbit of atom %d has %d atoms %s, its set lists %d" % (a, len(hit), "(superset)" if hit > set(ii.tolist()) else "", len(ii)),
                         key="orbit-equals-set")
                break
        if ident:
            want = set(np.array(d3.wyckoffs)[ii].tolist())
            if want != {s.wyckoff_letter}:
                out.fail("letters-independent", "MatID letter %s, spglib names these atoms %s in the returned (standard-setting) cell (group %d)" % (s.wyckoff_letter, sorted(want), c.sg),
                         key="letters-independent")
        else:
            for a in ii:
                seen_pairs.setdefault(s.wyckoff_letter, set()).add(d3.wyckoffs[a])
    if not ident:
        out.cls("restandardised")
        # a consistent bijection is the most that can be demanded
        inv = {}
        for k, v in seen_pairs.items():
            if len(v) != 1:
                out.fail("letters-bijection", "MatID letter %s corresponds to several spglib letters %s" % (k, sorted(v)))
            for x in v:
                inv.setdefault(x, set()).add(k)
        if any(len(v) > 1 for v in inv.values()):
            out.fail("letters-bijection", "several MatID letters map to one spglib letter")
    else:
        out.cls("letters-compared")
    elems = [s.element for s in sets]
    in_letters = np.array(c.ds.wyckoffs)
    mult_in = sorted(zip(in_letters.tolist(), c.nums.tolist()))
    frac_in = {}
    for l, z in mult_in:
        frac_in[(l, z)] = frac_in.get((l, z), 0) + 1
    frac_out = {}
    for l, z in zip(lc.tolist(), nums.tolist()):
        frac_out[(l, z)] = frac_out.get((l, z), 0) + 1
    permuted = set(frac_in) != set(frac_out)
    out.cls("letters-permuted" if permuted else "letters-as-spglib")
    out.nontrivial = bool(len(set(elems)) < len(elems) or permuted)
    return out
