"""C06 - symmetry results are a normal form: independent of how the crystal is presented."""
import numpy as np
from hypothesis import strategies as st

from vlib.case import Outcome, call, exc_key
from vlib.gen import crystals as gx
from vlib.oracles import spgref
from vlib.props import symcommon as sc

ID = "C06"
LEVEL = "exploration"
RULE = ("case = one crystal of the C05 family (random, or an enumerated occupation pattern) in two independent random presentations (rotation, "
        "translation, permutation, unimodular shear, supercell |det|<=4, unwrapping, left-handed basis, origin moved by twelfths of the cell); "
        "distinct = SHA-1 of the descriptor; non-trivial = the two presentations differ by more than a permutation and spglib's origin shift (mod 1) differs between them")
ASSUMPTIONS = sc.FILTER_ASSUMPTIONS + [
    "'metrically fixed lattice type' is read as tetragonal, trigonal, hexagonal or cubic crystal system: only there (and without free Wyckoff parameters) the conventional cells themselves are compared (cell parameters 1e-5 relative, positions 1e-4 fractional, as sets of (Z, position mod 1))",
    "both presentations must pass the well-conditioned filter with the same group",
]
_COVER = {}
LABELS = ["material_id", "space_group_number", "hall_number", "hall_symbol", "point_group", "bravais_lattice", "crystal_system", "wyckoff_multiset", "has_free"]


def plan(tier):
    return {"n_random": 2000 if tier == "quick" else 30000, "item_draws": 1, "time_s": 500 if tier == "quick" else 1750}


def items(tier):
    return sc.patterns(1 if tier == "quick" else 2) if tier == "quick" else sc.patterns(3)


def item_strategy(item, tier):
    return st.fixed_dictionaries({"crystal": sc.pattern_strategy(item).map(lambda d: d["crystal"]), "pres": gx.presentations(), "pres2": gx.presentations(identity_ok=False)})


@st.composite
def _crystals(draw):
    if draw(st.integers(0, 2)) == 0:
        # no free parameter at all, metrically fixed lattice types: exercises the second clause (identical conventional cell)
        return draw(gx.crystal_descs(sgs=list(range(75, 231)), only_fixed=True))
    if draw(st.integers(0, 2)) == 0:
        return draw(gx.shared_letter_descs())
    return draw(gx.crystal_descs())


def strategy(tier):
    return st.fixed_dictionaries({"crystal": _crystals(), "pres": gx.presentations(), "pres2": gx.presentations(identity_ok=False)})


def shard_extra():
    return _COVER


def merge_extra(parts, tier):
    return sc.cover_merge(parts)


def describe(c, an=None):
    an = sc.new_analyzer(c) if an is None else an
    sets = an.get_wyckoff_sets_conventional(False)
    d = {
        "material_id": an.get_material_id(),
        "space_group_number": int(an.get_space_group_number()),
        "hall_number": int(an.get_hall_number()),
        "hall_symbol": an.get_hall_symbol(),
        "point_group": an.get_point_group(),
        "bravais_lattice": an.get_bravais_lattice(),
        "crystal_system": an.get_crystal_system(),
        "wyckoff_multiset": sorted((s.wyckoff_letter, s.element, len(s.indices)) for s in sets),
        "has_free": bool(an.get_has_free_wyckoff_parameters()),
    }
    return d, an.get_conventional_system()


def run_case(desc):
    out = Outcome()
    c1 = sc.prepare({"crystal": desc["crystal"], "pres": desc["pres"]}, out)
    if c1 is None:
        return out
    o2 = Outcome()
    c2 = sc.prepare({"crystal": desc["crystal"], "pres": desc["pres2"]}, o2)
    if c2 is None:
        out.discard = o2.discard
        return out
    if c1.sg != c2.sg:
        out.discard = "ill-conditioned"
        return out
    from vlib.case import dhash
    rounded = int(dhash(desc), 16) % 5 == 2
    if rounded:
        # FILE PRECISION: the second presentation as it comes back from a file - Cartesian positions and cell rounded to four decimals
        # (deviation from the ideal symmetry up to ~5e-5 A: far below the tolerance MatID is given, above spglib's own default).
        # Kept only if the independent search still finds the same group between 3e-4 and 1e-2 (x length scale).
        cell_r, pos_r = np.round(c2.cell, 4), np.round(c2.pos, 4)
        d_lo = gx.spglib_group(cell_r, pos_r, c2.nums, 3e-4 * c2.scale)
        d_hi = gx.spglib_group(cell_r, pos_r, c2.nums, 1e-2 * c2.scale)
        d_mid = gx.spglib_group(cell_r, pos_r, c2.nums, c2.tol)
        if any(d is None or int(d.number) != c1.sg for d in (d_lo, d_hi, d_mid)):
            out.discard = "ill-conditioned-after-rounding"
            return out
        c2.cell, c2.pos = cell_r, pos_r
        c2.at = gx.make_atoms(cell_r, pos_r, c2.nums)
        out.cls("file-precision:4-decimals")
    ok, r1 = call(describe, c1)
    if not ok:
        return out.fail("returns-normally", "%r" % r1, key="exc:" + exc_key(r1))
    reuse = int(dhash(desc), 16) % 4 == 0
    if reuse:
        # ONE analyser for both presentations (a quarter of the cases): it described presentation 1, is handed presentation 2
        # through set_system() and must describe it as a fresh analyser would
        out.cls("analyser:reused-for-second-presentation")

        def second():
            an = sc.new_analyzer(c1)
            describe(c1, an)
            an.set_system(c2.at)
            return describe(c2, an)
        ok, r2 = call(second)
    else:
        ok, r2 = call(describe, c2)
    if not ok:
        return out.fail("returns-normally", "%r" % r2, key="exc:" + exc_key(r2))
    (d1, conv1), (d2, conv2) = r1, r2
    _COVER[c1.sg] = _COVER.get(c1.sg, 0) + 1
    what = " between presentations [%s] and [%s] of a group-%d crystal" % (gx.pres_class(desc["pres"]), gx.pres_class(desc["pres2"]), c1.sg)
    for k in LABELS:
        if d1[k] != d2[k]:
            out.fail("normal-form:" + k, "%s differs%s: %r vs %r" % (k, what, d1[k], d2[k]))
    cs = spgref.crystal_system(c1.sg)
    if rounded:
        out.cls("cell-not-compared:file-precision")
    elif not d1["has_free"] and not d2["has_free"] and cs in ("tetragonal", "trigonal", "hexagonal", "cubic"):
        out.cls("cell-compared")
        from vlib.props.c05 import cellpar
        p1, p2 = cellpar(conv1.get_cell()), cellpar(conv2.get_cell())
        if len(conv1) != len(conv2) or np.abs(p1 - p2).max() > 1e-5 * max(1.0, p1.max()):
            out.fail("normal-form:conventional-cell", "conventional cell parameters differ%s: %s vs %s" % (what, np.round(p1, 5).tolist(), np.round(p2, 5).tolist()))
        else:
            f1, f2 = sc.frac_of(conv1), sc.frac_of(conv2)
            z1, z2 = conv1.get_atomic_numbers(), conv2.get_atomic_numbers()
            used = set()
            okset = True
            for i in range(len(f1)):
                d = np.abs(spgref.wrapd(f2 - f1[i])).max(axis=1)
                d[z2 != z1[i]] = 9.0
                for j in used:
                    d[j] = 9.0
                j = int(np.argmin(d))
                if d[j] > 1e-4:
                    okset = False
                    break
                used.add(j)
            if not okset:
                out.fail("normal-form:conventional-positions", "sets of atomic positions of the conventional cells differ%s" % what)
    else:
        out.cls("cell-not-compared:" + ("free-parameters" if d1["has_free"] else cs))
    out.cls(*("pres2:" + l.split(":")[1] for l in gx.pres_labels(desc["pres2"])))
    more_than_perm = any(desc[k].get(x) is not None for k in ("pres", "pres2") for x in ("hnf", "shear", "quat", "trans", "unwrap", "lefthanded", "origin12"))
    shift_differs = bool(np.abs(spgref.wrapd(np.asarray(c1.ds.origin_shift) - np.asarray(c2.ds.origin_shift))).max() > 1e-6)
    out.cls("origin-shift-differs" if shift_differs else "origin-shift-same")
    out.nontrivial = bool(more_than_perm and shift_differs)
    return out
