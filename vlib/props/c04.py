"""C04 - a cluster's prototype cell identifies the material it was cut from."""
import collections
from functools import reduce
from math import gcd

import numpy as np
from hypothesis import strategies as st

from vlib.case import Outcome, call, exc_key
from vlib.gen import materials as gm
from vlib.props import matcommon as mcm

ID = "C04"
LEVEL = "exploration"
RULE = ("case = C02's single-crystal family with noise 0 (symmetry tolerance 0.1 A) or 0.02 A (README tolerance 0.5 A) plus monolayer supercells "
        "(graphene, h-BN, 2H-MoS2, 2H-WSe2, 1T-PtSe2; 3x3-6x6) x presentation; distinct = SHA-1 of the descriptor; non-trivial = the cluster's cell is "
        "not simply the input cell (every supercell / slab / monolayer case)")
ASSUMPTIONS = [
    "reference = SymmetryAnalyzer on the source unit cell at the same tolerance (the property is a differential statement between the prototype cell and the source cell)",
    "inputs on which get_clusters does not return exactly one cluster are C02's business: counted as 'c02-violated', not judged here",
    "precondition as in C02",
]


def EXHAUSTIVE(tier):
    return tier == "thorough"


def plan(tier):
    return {"n_random": 480 if tier == "quick" else 0, "item_draws": 2, "time_s": 700 if tier == "quick" else 1750, "shrink_evals": 0}


def combos():
    out = mcm.combos(noises=(0.0, 0.02))
    for m in gm.MONOLAYERS:
        for nz in (0.0, 0.02):
            for rep in ((3, 3), (4, 5), (6, 6), (3, 6)):
                out.append({"mat": m, "form": "monolayer", "rep": list(rep), "noise": nz})
    return out


def items(tier):
    return [] if tier == "quick" else combos()


def item_strategy(item, tier):
    return mcm.item_strategy(item)


@st.composite
def _random(draw):
    # a quarter of the random cases are monolayers (the property names them as a class of their own; by count they are 40 of
    # ~1100 combinations)
    if draw(st.integers(0, 3)) == 0:
        return draw(mcm.case_strategy([c for c in combos() if c["form"] == "monolayer"]))
    return draw(mcm.case_strategy(combos()))


def strategy(tier):
    return _random()


def sig(at, tol):
    from matid.symmetry import SymmetryAnalyzer
    an = SymmetryAnalyzer(at, symmetry_tol=tol)
    ws = tuple(sorted((w.wyckoff_letter, w.element, len(w.indices)) for w in an.get_wyckoff_sets_conventional(False)))
    return {"material_id": an.get_material_id(), "space_group": int(an.get_space_group_number()), "wyckoff_occupation": ws}


def formula(at):
    c = collections.Counter(at.get_atomic_numbers().tolist())
    g = reduce(gcd, c.values())
    return {k: v // g for k, v in c.items()}


def run_case(desc):
    from matid.clustering import SBC
    out = Outcome()
    c = desc["combo"]
    if c["form"] == "monolayer":
        unit = gm.monolayer(c["mat"])
        s = unit.repeat((c["rep"][0], c["rep"][1], 1))
        want_pbc = 2
        if desc.get("cform") == "zero" and not desc.get("mono_ttt"):
            # the form ase.build.mx2 / graphene return without `vacuum`: zero third cell vector, pbc TTF
            cz = np.asarray(s.get_cell()).copy()
            cz[2] = 0.0
            s.set_cell(cz, scale_atoms=False)
            out.cls("monolayer:zero-c-vector")
        if desc.get("mono_ttt"):
            # the usual storage form of a monolayer in a plane-wave code: fully periodic box with vacuum (16 A + thickness);
            # with the presentation's translation the layer may lie across the periodic boundary of the vacuum axis
            s.set_pbc(True)
            out.cls("monolayer:ttt-box")
    else:
        s, why = gm.make(c["mat"], c["form"], c["facet"], c["layers"], c["pbcz"])
        if s is None:
            out.discard = "precondition:" + why
            return out
        pc = gm.precondition(s, c["noise"])
        if pc:
            out.discard = "precondition:" + pc
            return out
        unit = gm.library()[c["mat"]][1]
        want_pbc = 3
    tol = 0.1 if c["noise"] == 0 else 0.5
    s2, perm = gm.present(s, desc["pres"], c["noise"])
    key = mcm.combo_key(c)
    out.cls("form=" + c["form"], "noise=%g" % c["noise"])
    ok, cl = call(lambda: SBC().get_clusters(s2, seed=desc["pres"]["sbc_seed"]))
    if not ok:
        return out.fail("returns-normally", "%s: %r" % (key, cl), key="exc:%s:%s" % (key, exc_key(cl)))
    if len(cl) != 1:
        out.discard = "c02-violated"
        return out
    out.nontrivial = True
    cell = cl[0].get_cell()
    if cell is None:
        return out.fail("prototype-cell-present", "%s: cluster without prototype cell" % key, key="no-cell:" + key)
    npbc = int(np.sum(cell.get_pbc()))
    if npbc != want_pbc:
        out.fail("cell-periodicity", "%s: prototype cell periodic in %d directions, expected %d" % (key, npbc, want_pbc), key="cell-periodicity:" + key)
    f1, f0 = formula(cell), formula(unit)
    if f1 != f0:
        out.fail("whole-formula-units", "%s: prototype cell composition %s, source %s" % (key, f1, f0), key="formula:" + key)
    ok, got = call(sig, cell, tol)
    if not ok:
        return out.fail("returns-normally", "%s: SymmetryAnalyzer on the prototype cell raised %r" % (key, got), key="exc-sym:%s:%s" % (key, exc_key(got)))
    ok, ref = call(sig, unit, tol)
    if not ok:
        out.discard = "reference-analysis-failed"
        return out
    for k in ("space_group", "wyckoff_occupation", "material_id"):
        if got[k] != ref[k]:
            out.fail("identifies-material", "%s (noise %g, tol %g): %s of the prototype cell is %r, of the source cell %r" % (key, c["noise"], tol, k, got[k], ref[k]), key="identifies-material:" + key)
            break
    return out
