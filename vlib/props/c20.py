"""C20 - cell and frame helpers preserve the physical structure."""
import numpy as np
from hypothesis import strategies as st

from vlib.case import Outcome, call, exc_key
from vlib.gen import cells as gc

ID = "C20"
LEVEL = "exploration"
RULE = ("case = (non-singular cell descriptor, pbc, 1-10 atoms with fractional coordinates in [-1.5,2.5) or [0,1), axis, min_size, "
        "swap pair, completion length, translation, per-atom lattice shifts); distinct = SHA-1 of the descriptor; "
        "non-trivial = non-orthogonal cell and at least one atom outside the cell")
ASSUMPTIONS = [
    "float tolerance: 1e-10 * cond(cell) * scale + 1e-9 for quantities that pass through a linear solve, stated per clause",
    "centre-of-mass clauses are not judged when the mass-weighted circular resultant along a periodic axis is < 1e-3 (ill-conditioned mean) - counted",
    "minimised-cell length clause not judged when |extent - min_size| < 1e-7",
    "inertia tensor reference is computed about MatID's own centre of mass, which is validated modulo the lattice against an independent circular mean in the same case",
]


def plan(tier):
    return {"n_random": 5000 if tier == "quick" else 200000, "time_s": 300 if tier == "quick" else 1700}


ELEMENTS = [1, 6, 8, 14, 26, 29, 79]


@st.composite
def _cases(draw):
    cell = draw(gc.cell_descs(lo=0.5, hi=30.0))
    pbc = draw(gc.pbcs)
    n = draw(st.integers(1, 10))
    inside = draw(st.integers(0, 3)) == 0
    fl = st.floats(0.0, 1.0, exclude_max=True, allow_nan=False, width=64) if inside else gc.ffloat(-1.5, 2.5)
    frac = [[draw(fl) for _ in range(3)] for _ in range(n)]
    Z = [draw(st.sampled_from(ELEMENTS)) for _ in range(n)]
    return {"cell": cell, "pbc": pbc, "frac": frac, "Z": Z,
            "axis": draw(st.integers(0, 2)), "min_size": draw(gc.ffloat(0.1, 3.0)),
            "swap": [draw(st.integers(0, 2)), draw(st.integers(1, 2))],
            "length": draw(gc.ffloat(0.5, 10.0)),
            "t": [draw(gc.ffloat(-5.0, 5.0)) for _ in range(3)],
            "k": [[draw(st.integers(-3, 3)) for _ in range(3)] for _ in range(n)],
            "weight": draw(st.booleans()),
            # exact boundary of get_minimized_cell: extent == min_size in floating point (orthogonal power-of-two cell, atoms on a
            # 1/16 grid, min_size taken from the extent); a quarter of the cases
            "dyadic": None if draw(st.integers(0, 3)) else {"L": [draw(st.sampled_from([4.0, 8.0, 16.0])) for _ in range(3)],
                                                               "grid": [[draw(st.integers(-8, 24)) for _ in range(3)] for _ in range(draw(st.integers(2, 5)))]}}


def strategy(tier):
    return _cases()


def circ_com(cell, pos, masses, pbc):
    s = np.linalg.solve(cell.T, pos.T).T
    out = np.zeros(3)
    R = []
    for i in range(3):
        if pbc[i]:
            z = np.sum(masses * np.exp(2j * np.pi * s[:, i])) / masses.sum()
            R.append(abs(z))
            out[i] = (np.angle(z) / (2 * np.pi)) % 1.0
        else:
            out[i] = np.sum(masses * s[:, i]) / masses.sum()
    return out, (min(R) if R else 1.0)


def run_case(desc):
    import matid.geometry as mg
    from ase import Atoms
    out = Outcome()
    cell = gc.build_cell(desc["cell"])
    pbc = np.array(desc["pbc"], bool)
    frac = np.array(desc["frac"], float)
    pos = np.ascontiguousarray(frac @ cell)
    Z = np.array(desc["Z"], int)
    n = len(pos)
    cond = float(np.linalg.cond(cell))
    scale = max(1.0, float(np.abs(pos).max()), float(np.abs(cell).max()))
    tol = 1e-10 * cond * scale + 1e-9
    at = Atoms(numbers=Z, positions=pos, cell=cell, pbc=pbc)
    outside = bool(((frac < 0) | (frac >= 1)).any())
    out.cls("cell=" + desc["cell"]["kind"], "npbc=%d" % pbc.sum(), "outside" if outside else "inside")
    out.nontrivial = bool(desc["cell"]["kind"] != "orth" and outside)

    def fail_exc(where, e):
        out.fail("returns-normally", "%s: %r" % (where, e), key="exc:%s:%s" % (where, exc_key(e)))

    # ---- to_scaled / to_cartesian -----------------------------------------------------------------------
    ok, s = call(mg.to_scaled, cell.copy(), pos.copy())
    if not ok:
        fail_exc("to_scaled", s)
    else:
        ok, p2 = call(mg.to_cartesian, cell.copy(), s.copy())
        if not ok:
            fail_exc("to_cartesian", p2)
        elif np.abs(p2 - pos).max() > tol:
            out.fail("roundtrip-cart", "to_cartesian(to_scaled(p)) differs from p by %.3g" % np.abs(p2 - pos).max())
        ok, c1 = call(mg.to_cartesian, cell.copy(), frac.copy())
        if ok:
            ok, s2 = call(mg.to_scaled, cell.copy(), c1.copy())
            if ok and np.abs(s2 - frac).max() > 1e-10 * cond * max(1.0, np.abs(frac).max()) + 1e-9:
                out.fail("roundtrip-scaled", "to_scaled(to_cartesian(s)) differs from s by %.3g" % np.abs(s2 - frac).max())
        # the periodicity flags in the spellings ASE accepts (MatID's expand_pbc passes a sequence through unchanged)
        from vlib.case import dhash
        form = ["bool-array", "bool-list", "int-list", "int-tuple", "int-array", "scalar"][int(dhash(desc), 16) % 6]
        if form == "scalar" and not (pbc.all() or not pbc.any()):
            form = "bool-tuple"

        def flags():
            if form == "bool-array":
                return pbc.copy()
            if form == "bool-list":
                return [bool(x) for x in pbc]
            if form == "bool-tuple":
                return tuple(bool(x) for x in pbc)
            if form == "int-list":
                return [int(x) for x in pbc]
            if form == "int-tuple":
                return tuple(int(x) for x in pbc)
            if form == "int-array":
                return pbc.astype(int)
            return bool(pbc.all())
        out.cls("pbc-flags=" + form)
        ok, sw = call(mg.to_scaled, cell.copy(), pos.copy(), True, flags())
        if not ok:
            fail_exc("to_scaled-wrap", sw)
        else:
            d = sw - s
            if np.abs(d[:, ~pbc]).max(initial=0.0) > 0:
                out.fail("wrap-nonperiodic-untouched", "wrapping changed a non-periodic component")
            if np.abs(d[:, pbc] - np.rint(d[:, pbc])).max(initial=0.0) > 1e-9 * max(1.0, np.abs(s).max()):
                out.fail("wrap-integer", "wrapping changed a periodic component by a non-integer")
            if (sw[:, pbc] < 0).any() or (sw[:, pbc] > 1).any():
                out.fail("wrap-range", "wrapped periodic component outside [0,1] (pbc flags given as %s)" % form)
        ok, cw = call(mg.to_cartesian, cell.copy(), frac.copy(), True, flags())
        if not ok:
            fail_exc("to_cartesian-wrap", cw)
        else:
            k = np.linalg.solve(cell.T, (cw - pos).T).T
            if np.abs(k[:, ~pbc]).max(initial=0.0) > 1e-10 * cond * max(1.0, np.abs(frac).max()) + 1e-9 or \
                    np.abs(k[:, pbc] - np.rint(k[:, pbc])).max(initial=0.0) > 1e-10 * cond * max(1.0, np.abs(frac).max()) + 1e-9:
                out.fail("wrap-integer", "to_cartesian(wrap) moved an atom by a non-lattice vector")
            fw = frac + k
            eps = 1e-10 * cond * max(1.0, np.abs(frac).max()) + 1e-9
            if (fw[:, pbc] < -eps).any() or (fw[:, pbc] > 1 + eps).any():
                out.fail("wrap-range", "to_cartesian(wrap) left a periodic component outside [0,1] (pbc flags given as %s)" % form)

    # ---- get_minimized_cell ---------------------------------------------------------------------------------
    axis = int(desc["axis"]); ms = float(desc["min_size"])
    ok, m = call(mg.get_minimized_cell, at.copy(), axis, ms)
    if not ok:
        fail_exc("get_minimized_cell", m)
    else:
        if len(m) != n or not np.array_equal(m.get_atomic_numbers(), Z):
            out.fail("min-same-atoms", "species/order changed")
        else:
            if not np.array_equal(np.asarray(m.get_pbc()), pbc):
                out.fail("min-pbc", "pbc changed")
            mp = m.get_positions()
            dd0 = pos[:, None] - pos[None, :]; dd1 = mp[:, None] - mp[None, :]
            if np.abs(dd0 - dd1).max() > 10 * tol:
                out.fail("min-displacements", "mutual displacements changed by %.3g" % np.abs(dd0 - dd1).max())
            c1 = np.asarray(m.get_cell())
            others = [i for i in range(3) if i != axis]
            if np.abs(c1[others] - cell[others]).max() > 0:
                out.fail("min-other-vectors", "a cell vector other than the chosen axis changed")
            L0 = np.linalg.norm(cell[axis]); L1 = np.linalg.norm(c1[axis])
            u0 = cell[axis] / L0
            if L1 <= 0 or np.abs(c1[axis] / L1 - u0).max() > 1e-9:
                out.fail("min-direction", "the chosen cell vector changed direction")
            ext = float(np.ptp(frac[:, axis]) * L0)
            if abs(ext - ms) > 1e-7:
                want = max(ext, ms)
                if abs(L1 - want) > 10 * tol:
                    out.fail("min-length", "length %.9g, expected max(extent %.9g, min_size %.9g)" % (L1, ext, ms))
                elif L1 > 0:
                    sp = np.linalg.solve(c1.T, mp.T).T[:, axis]
                    ftol = 10 * tol / L1
                    if sp.min() < -ftol or sp.max() > 1 + ftol:
                        out.fail("min-inside", "scaled positions along the axis span [%.9g, %.9g]" % (sp.min(), sp.max()))
                    elif ext < ms and abs((sp.min() + sp.max()) / 2 - 0.5) > ftol:
                        out.fail("min-centred", "padded cell not centred: midpoint %.9g" % ((sp.min() + sp.max()) / 2))

    if desc.get("dyadic"):
        dy = desc["dyadic"]
        Ld = np.array(dy["L"], float)
        fd = np.array(dy["grid"], float) / 16.0
        pd = fd * Ld
        extd = float(np.ptp(fd[:, axis]) * Ld[axis])
        if 0.1 <= extd <= 3.0:
            out.cls("min:extent==min_size")
            atd = Atoms(numbers=[6] * len(pd), positions=pd, cell=np.diag(Ld), pbc=pbc)
            ok, md = call(mg.get_minimized_cell, atd.copy(), axis, extd)
            if not ok:
                fail_exc("get_minimized_cell(extent==min_size)", md)
            else:
                L1d = float(np.linalg.norm(np.asarray(md.get_cell())[axis]))
                mpd = md.get_positions()
                if abs(L1d - extd) > 1e-9 or np.abs((mpd[:, None] - mpd[None, :]) - (pd[:, None] - pd[None, :])).max() > 1e-9:
                    out.fail("min-length", "extent == min_size == %.6g exactly: cell length %.9g / displacements changed" % (extd, L1d), key="min-length-at-equality")

    # ---- swap_basis -------------------------------------------------------------------------------------------
    a = int(desc["swap"][0]); b = (a + int(desc["swap"][1])) % 3
    t = at.copy()
    ok, r = call(mg.swap_basis, t, a, b)
    if not ok:
        fail_exc("swap_basis", r)
    else:
        c2 = np.asarray(t.get_cell()); p2 = np.asarray(t.get_pbc())
        want = cell.copy(); want[[a, b]] = want[[b, a]]
        wp = pbc.copy(); wp[[a, b]] = wp[[b, a]]
        if np.abs(c2 - want).max() > 0 or not np.array_equal(p2, wp):
            out.fail("swap-exchanges", "cell vectors / pbc flags not exchanged")
        if np.abs(t.get_positions() - pos).max() > 0 or not np.array_equal(t.get_atomic_numbers(), Z):
            out.fail("swap-moves-atoms", "atoms moved")

    # ---- complete_cell ------------------------------------------------------------------------------------------
    L = float(desc["length"])
    ok, c = call(mg.complete_cell, cell[a].copy(), cell[b].copy(), L)
    if not ok:
        fail_exc("complete_cell", c)
    else:
        c = np.asarray(c, float).reshape(-1)
        if c.shape != (3,) or abs(np.linalg.norm(c) - L) > 1e-9 * L:
            out.fail("complete-length", "norm %.9g, requested %.9g" % (np.linalg.norm(c), L))
        elif abs(c @ cell[a]) > 1e-9 * cond * L * np.linalg.norm(cell[a]) or abs(c @ cell[b]) > 1e-9 * cond * L * np.linalg.norm(cell[b]):
            out.fail("complete-orthogonal", "not orthogonal to the inputs")

    # ---- centre of mass ----------------------------------------------------------------------------------------------
    masses = at.get_masses()
    ref, R = circ_com(cell, pos, masses, pbc)
    ftol = 1e-8 * cond / max(R, 1e-3) + 1e-8
    ok, com = call(mg.get_center_of_mass, at.copy())
    if not ok:
        fail_exc("get_center_of_mass", com)
        com = None
    elif R < 1e-3:
        out.cls("com-illconditioned")
    else:
        def fdiff(v):
            d = np.linalg.solve(cell.T, v)
            d[pbc] -= np.rint(d[pbc])
            return np.abs(d).max()
        sc = np.linalg.solve(cell.T, com)
        d = sc - ref
        d[pbc] -= np.rint(d[pbc])
        if np.abs(d).max() > ftol:
            out.fail("com-reference", "centre of mass differs from the weighted circular mean by %.3g (fractional)" % np.abs(d).max())
        tt = np.array(desc["t"], float)
        a2 = at.copy(); a2.set_positions(pos + tt)
        ok, com2 = call(mg.get_center_of_mass, a2)
        if ok and fdiff(com2 - com - tt) > ftol:
            out.fail("com-translation", "centre of mass does not follow a rigid translation (residual %.3g fractional)" % fdiff(com2 - com - tt))
        k = np.array(desc["k"], float); k[:, ~pbc] = 0
        a3 = at.copy(); a3.set_positions(pos + k @ cell)
        ok, com3 = call(mg.get_center_of_mass, a3)
        if ok and fdiff(com3 - com) > ftol:
            out.fail("com-lattice-shift", "centre of mass changed under per-atom lattice shifts (residual %.3g fractional)" % fdiff(com3 - com))

    # ---- moments of inertia ---------------------------------------------------------------------------------------------
    w = bool(desc["weight"])
    ok, res = call(mg.get_moments_of_inertia, at.copy(), w)
    if not ok:
        fail_exc("get_moments_of_inertia", res)
    elif com is not None:
        ev, evec = res
        wts = masses if w else np.ones(n)
        r = pos - com
        I = np.zeros((3, 3))
        for wi, ri in zip(wts, r):
            I += wi * ((ri @ ri) * np.eye(3) - np.outer(ri, ri))
        ref_ev = np.linalg.eigvalsh(I)
        nI = max(1.0, np.abs(I).max())
        ev = np.asarray(ev, float); evec = np.asarray(evec, float)
        if ev.shape != (3,) or evec.shape != (3, 3) or np.abs(np.sort(ev) - ref_ev).max() > 1e-8 * nI:
            out.fail("moi-eigenvalues", "eigenvalues %s, expected %s" % (np.sort(ev).tolist(), ref_ev.tolist()))
        elif np.abs(I @ evec - evec * ev[None, :]).max() > 1e-7 * nI or np.abs(evec.T @ evec - np.eye(3)).max() > 1e-8:
            out.fail("moi-eigenvectors", "returned vectors are not orthonormal eigenvectors of the inertia tensor")
    if out.nontrivial:
        out.cls("nontrivial")
    return out
