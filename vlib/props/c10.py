"""C10 - the displacement tensor is a sound and, within range, exact minimum-image table."""
import numpy as np
from hypothesis import strategies as st

from vlib.case import Outcome, call, exc_key
from vlib.gen import cells as gc
from vlib.oracles import mic as omic

ID = "C10"
LEVEL = "exploration"
RULE = ("case = (cell descriptor, pbc, 1-10 fractional positions in [0,1)^3, cutoff in {None, inf, 0.5-10 A}); "
        "distinct = SHA-1 of the descriptor; non-trivial = >=2 atoms, >=1 periodic axis and at least one pair whose "
        "minimum image is not the (0,0,0) image")
ASSUMPTIONS = [
    "oracle: ASE minkowski_reduce + 125-neighbour search (vlib/oracles/mic.py), cross-checked per run against a bounded brute-force lattice sum on the first cases of each shard",
    "cases needing more than 3e4 image atoms or 2e6 cell-list bins (cutoff / cell height too large; the implementation's memory grows with the bounding box of the images) are discarded and counted: cost, not semantics",
    "pairs whose minimum-image distance is within 1e-7 of the cutoff are not judged (case discarded and counted)",
]
EPS = 1e-7
_selfchecked = {"n": 0, "bad": 0}


def plan(tier):
    return {"n_random": 8000 if tier == "quick" else 300000, "time_s": 240 if tier == "quick" else 1700}


@st.composite
def _cases(draw):
    cell = draw(gc.cell_descs(lo=0.5, hi=30.0))
    pbc = draw(gc.pbcs)
    n = draw(st.integers(1, 10))
    frac = [[draw(st.floats(0.0, 1.0, exclude_max=True, allow_nan=False, width=64)) for _ in range(3)] for _ in range(n)]
    ck = draw(st.sampled_from(["finite", "finite", "finite", "inf", "none"]))
    cutoff = None if ck == "none" else "inf" if ck == "inf" else draw(gc.ffloat(0.5, 10.0))
    return {"cell": cell, "pbc": pbc, "frac": frac, "cutoff": cutoff}


def strategy(tier):
    return _cases()


def n_images(cell, pbc, ext, n, cutoff=None):
    """(image atoms, cell-list bins) the implementation will allocate for this request."""
    h = gc.heights(cell)
    tot = n
    span = np.zeros(3)
    for i in range(3):
        k = int(np.ceil(ext / h[i])) if pbc[i] else 0
        tot *= 2 * k + 1
        span += (2 * k + 1) * np.abs(cell[i])
    bins = 1.0
    if cutoff is not None and np.isfinite(cutoff):
        bins = float(np.prod(np.maximum(1.0, np.floor(span / cutoff))))
    return tot, bins


def run_case(desc):
    import matid.geometry as mg
    out = Outcome()
    cell = gc.build_cell(desc["cell"])
    pbc = np.array(desc["pbc"], bool)
    frac = np.array(desc["frac"], float)
    pos = np.ascontiguousarray(frac @ cell)
    n = len(pos)
    c = desc["cutoff"]
    unbounded = c is None or c == "inf"
    cutoff = None if c is None else float("inf") if c == "inf" else float(c)
    lens = np.linalg.norm(cell, axis=1)
    limit = (lens[pbc].max() if pbc.any() else float("inf")) if unbounded else cutoff
    ext = limit if pbc.any() else 0.0
    nim, nbins = n_images(cell, pbc, ext, n, cutoff)
    if nim > 3e4 or nbins > 2e6:
        out.discard = "too-many-images"
        return out
    out.cls("cell=" + gc.cell_class(desc["cell"]), "npbc=%d" % pbc.sum(), "cutoff=" + ("none" if c is None else "inf" if c == "inf" else "finite"))
    scale = max(1.0, float(np.abs(pos).max()) + float(ext if np.isfinite(ext) else 0.0))
    atol = 1e-9 * scale

    ok, res = call(mg.get_displacement_tensor, pos.copy(), cell.copy(), pbc.copy(), cutoff=cutoff, return_factors=True, return_distances=True)
    if not ok:
        return out.fail("returns-normally", "%r" % res, key="exc:" + exc_key(res))
    disp, fac, dist = res
    V, F, Dm, gap = omic.pair_table(pos, cell, pbc)

    # oracle self-check against brute force on a few pairs (harness integrity, not a property clause)
    if _selfchecked["n"] < 40 and n >= 2 and pbc.any():
        b = omic.mic_brute(pos[0] - pos[1], cell, pbc)
        if b is not None:
            _selfchecked["n"] += 1
            if abs(b - Dm[0, 1]) > 1e-9 * scale:
                raise AssertionError("oracle self-check failed: reduced mic %.12g vs brute force %.12g" % (Dm[0, 1], b))

    fin = np.isfinite(dist)
    # ambiguous: a pair right at the decision boundary
    offdiag = ~np.eye(n, dtype=bool)
    if np.isfinite(limit) and (np.abs(Dm - limit)[offdiag] < EPS).any():
        out.discard = "ambiguous-cutoff"
        return out
    # --- soundness of finite entries ------------------------------------------------------------------
    if not fin.diagonal().all() or np.abs(dist.diagonal()).max() > 0 or np.abs(disp[np.arange(n), np.arange(n)]).max() > 0 \
            or np.abs(fac[np.arange(n), np.arange(n)]).max() > 0:
        out.fail("zero-diagonal", "diagonal entries are not exactly zero")
    if not np.array_equal(fin, fin.T):
        out.fail("symmetry", "finiteness pattern is not symmetric")
    fd = np.isfinite(disp).all(axis=2)
    ff = np.isfinite(fac).all(axis=2)
    if not (np.array_equal(fd, fin) and np.array_equal(ff, fin)):
        out.fail("tables-consistent", "displacement/factor entries finite where distance is not (or vice versa)")
    iu = np.where(fin & fd & ff)
    if len(iu[0]):
        dsp = disp[iu]; fc = fac[iu]; dd = dist[iu]
        if not np.array_equal(fc, np.rint(fc)):
            out.fail("integer-factors", "non-integer factor")
        elif (fc[:, ~pbc] != 0).any():
            out.fail("factors-nonperiodic-zero", "non-zero factor along a non-periodic axis")
        recon = pos[iu[0]] - pos[iu[1]] - fc @ cell
        err = np.abs(recon - dsp).max()
        if err > atol:
            out.fail("genuine-image", "displacement != r_i - r_j - factor.cell (max err %.3g)" % err)
        err = np.abs(np.linalg.norm(dsp, axis=1) - dd).max()
        if err > atol:
            out.fail("distance-is-norm", "distance != |displacement| (max err %.3g)" % err)
        if np.abs(dist[iu] - dist.T[iu]).max() > 0:
            out.fail("symmetry", "distance table not symmetric")
        if np.abs(disp[iu] + np.transpose(disp, (1, 0, 2))[iu]).max() > 0 or np.abs(fac[iu] + np.transpose(fac, (1, 0, 2))[iu]).max() > 0:
            out.fail("antisymmetry", "displacement/factor tables not antisymmetric")
        short = dd < Dm[iu] - atol
        if short.any():
            out.fail("never-shorter-than-mic", "reported %.9g < true minimum %.9g" % (dd[short][0], Dm[iu][short][0]))
    # --- completeness ------------------------------------------------------------------------------------
    within = Dm <= limit - EPS if np.isfinite(limit) else np.ones_like(Dm, bool)
    if unbounded:
        # exactness is promised within the longest periodic vector; nothing may be infinite
        if not fin.all():
            out.fail("unbounded-no-inf", "%d infinite entries with unbounded cutoff" % int((~fin).sum()))
        within = Dm <= limit - EPS if pbc.any() else np.ones_like(Dm, bool)
    miss = within & ~fin
    if miss.any() and not unbounded:
        i, j = np.argwhere(miss)[0]
        out.fail("complete-within-cutoff", "pair (%d,%d) with d_mic=%.9g <= cutoff=%.9g reported infinite" % (i, j, Dm[i, j], limit))
    ex = within & fin
    if ex.any():
        bad = ex & (np.abs(np.where(fin, dist, 0.0) - Dm) > atol)
        if bad.any():
            i, j = np.argwhere(bad)[0]
            out.fail("exact-within-range", "pair (%d,%d): reported %.9g, true minimum image %.9g (limit %.9g)" % (i, j, dist[i, j], Dm[i, j], limit))
    if not unbounded:
        beyond = (Dm > limit + EPS) & fin
        if beyond.any():
            i, j = np.argwhere(beyond)[0]
            out.fail("beyond-cutoff-inf", "pair (%d,%d) with d_mic=%.9g > cutoff=%.9g reported finite %.9g" % (i, j, Dm[i, j], limit, dist[i, j]))
    # --- get_distances: the same table (unbounded cutoff) with radii subtracted, for every periodicity --------------------
    lim_unb = lens[pbc].max() if pbc.any() else 0.0
    if n_images(cell, pbc, lim_unb, n, None)[0] <= 5e3:      # get_distances always uses the unbounded cutoff: bound its cost
        from ase import Atoms
        from ase.data import covalent_radii
        at = Atoms(numbers=[6] * n, positions=pos, cell=cell, pbc=pbc)
        ok, dres = call(mg.get_distances, at)
        if not ok:
            out.fail("returns-normally", "get_distances: %r" % dres, key="exc-distances:" + exc_key(dres))
        else:
            lim2 = lens[pbc].max() if pbc.any() else float("inf")
            dmm = np.asarray(dres.dist_matrix_mic, float)
            w2 = (Dm <= lim2 - EPS) & ~np.eye(n, dtype=bool)
            if dmm.shape != (n, n) or not np.isfinite(dmm).all():
                out.fail("distances-complete", "get_distances returned non-finite entries or a wrong shape")
            elif w2.any() and np.abs(dmm - Dm)[w2].max() > atol:
                i, j = np.argwhere(w2 & (np.abs(dmm - Dm) > atol))[0]
                out.fail("distances-minimum-image", "get_distances: pair (%d,%d) reported %.9g, true minimum image %.9g (pbc %s)" % (i, j, dmm[i, j], Dm[i, j], pbc.tolist()))
            else:
                rr = np.asarray(dres.dist_matrix_radii_mic, float)
                if np.abs(rr - (dmm - 2 * covalent_radii[6])).max() > 1e-9:
                    out.fail("distances-radii", "dist_matrix_radii_mic is not dist_matrix_mic minus the radii")
                fa = np.asarray(dres.disp_factors, float)
                if fa.shape != (n, n, 3) or not np.array_equal(fa, np.rint(fa)) or (fa[:, :, ~pbc] != 0).any():
                    out.fail("distances-factors", "disp_factors of get_distances are not integers vanishing along non-periodic axes")
    nz = (F != 0).any(axis=2)
    out.nontrivial = bool(n >= 2 and pbc.any() and nz.any())
    if out.nontrivial:
        out.cls("nontrivial")
    return out


def extra_engine(tier, seed, work):
    """coverage-guided tier: libFuzzer + ASan/UBSan on the current C++ with the oracle inside the target (DESIGN 2.6)"""
    from vlib import fuzz
    return fuzz.campaign(ID, seed, 8 if tier == "quick" else 300, 16, work)
