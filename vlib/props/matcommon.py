"""Shared enumeration of the single-crystal family of C02 / C04 (material x form x facet x layers x pbc x noise)."""
from hypothesis import strategies as st

from vlib.gen import materials as gm


def combos(noises=(0.0, 0.02, 0.05), layers=(3, 4)):
    out = []
    for name in gm.names():
        for nz in noises:
            out.append({"mat": name, "form": "bulk", "facet": None, "layers": None, "pbcz": True, "noise": nz})
            for f in gm.FACETS:
                for l in layers:
                    for pz in (True, False):
                        out.append({"mat": name, "form": "slab", "facet": list(f), "layers": l, "pbcz": pz, "noise": nz})
    return out


def combo_key(c):
    if c["form"] == "bulk":
        return "%s:bulk" % c["mat"]
    if c["form"] == "monolayer":
        return "%s:monolayer" % c["mat"]
    return "%s:slab:%s:%d" % (c["mat"], "".join(str(x) for x in c["facet"]), c["layers"])


def case_strategy(combo_list):
    """stratified by structure type (fcc, bcc, hcp, diamond, sc, rocksalt, ...): types with few materials (wurtzite, rutile,
    perovskite ...) would otherwise be starved by the ~40 fcc/bcc/hcp elements"""
    by_type = {}
    for c in combo_list:
        t = gm.library()[c["mat"]][0] if c["mat"] in gm.library() else "monolayer"
        by_type.setdefault(t, []).append(c)
    types = sorted(by_type)
    # within a type first the form (bulk / slab / monolayer), then the combination: bulk supercells are 2 of the 34 combinations of a
    # material and would otherwise hardly be drawn for the rare types
    def of_type(t):
        forms = sorted({c["form"] for c in by_type[t]})
        return st.sampled_from(forms).flatmap(lambda f: st.sampled_from([c for c in by_type[t] if c["form"] == f]))
    stratified = st.sampled_from(types).flatmap(of_type)
    # half of the cases uniformly over all combinations (weights the many elemental fcc/bcc/hcp crystals), half by type
    return st.fixed_dictionaries({"combo": st.one_of(st.sampled_from(combo_list), stratified), "pres": gm.presentations(), "gap": gaps(), "cform": cforms(), "mono_ttt": st.booleans()})


def gaps():
    """vacuum between a z-periodic slab and its image: None = generous (>= 13 A), else thin (3.5 - 9 A, kept only if the slab is
    clearly not bonded to its image and the cell is still higher than 2*max_cell_size)"""
    from vlib.gen import cells as gc
    return st.one_of(st.none(), st.none(), gc.ffloat(3.5, 9.0))


def cforms():
    """how the cell of a slab that is NOT periodic along its normal describes that direction: generous vacuum (default), a zero
    vector (what ase.build's surface builders return without `vacuum`), or a tight box (cell height = slab thickness)"""
    return st.sampled_from([None, None, "zero", "tight"])


def item_strategy(combo):
    return st.fixed_dictionaries({"combo": st.just(combo), "pres": gm.presentations(), "gap": gaps(), "cform": cforms(), "mono_ttt": st.booleans()})
