"""C15 - the chirality flag is true exactly for the 65 Sohncke space groups."""
import numpy as np
from hypothesis import strategies as st

from vlib.case import Outcome, call, exc_key
from vlib.gen import crystals as gx
from vlib.oracles import spgref

ID = "C15"
LEVEL = "exploration"
RULE = ("enumerated over all 230 space groups: k crystals per group (1-3 orbits + general-position anchor) each in a random presentation "
        "(unimodular shear, supercell |det|<=4, rotation, translation, permutation, unwrapping, left-handed basis) and in the plain "
        "standard setting; distinct = SHA-1 of the descriptor; non-trivial = the presentation changes the lattice basis (shear, supercell or left-handed)")
ASSUMPTIONS = [
    "Sohncke set computed from spglib's Hall database as 'no operation with det -1' (self-checked: 65 groups)",
    "samples whose spglib group differs between symprec 1e-4 and 1e-2 are discarded and counted (ill-conditioned); MatID runs at 1e-3",
    "samples with raw shortest distance < 0.5 A are discarded and counted",
]


def EXHAUSTIVE(tier):
    return False


_COVER = {}


def shard_extra():
    return _COVER


def merge_extra(parts, tier):
    tot = {}
    for p in parts:
        for k, v in p.items():
            tot[int(k)] = tot.get(int(k), 0) + v
    return {"detected_groups_covered": len(tot), "detected_groups_missing": [g for g in range(1, 231) if g not in tot],
            "cases_per_detected_group_min": min(tot.values()) if tot else 0}


def plan(tier):
    return {"n_random": 0, "item_draws": 8 if tier == "quick" else 200, "time_s": 300 if tier == "quick" else 1700}


def items(tier):
    return list(range(1, 231))


def item_strategy(sg, tier):
    return st.fixed_dictionaries({"crystal": gx.crystal_descs(sgs=[sg], salt=sg % 89), "pres": gx.presentations(identity_ok=False),
                                  "other": gx.crystal_descs(salt=(sg * 3 + 1) % 89)})


def run_case(desc):
    from matid.symmetry import SymmetryAnalyzer
    out = Outcome()
    cell, frac, nums, status = gx.conditioned(desc["crystal"])
    if status != "ok":
        out.discard = status
        return out
    p = desc["pres"]
    flags = []
    for tag, pres in (("standard", {}), ("presented", p)):
        c2, pos, n2 = gx.apply_presentation(cell, frac, nums, pres)
        ds = gx.well_conditioned(c2, pos, n2)
        if ds is None:
            out.discard = "ill-conditioned"
            return out
        at = gx.make_atoms(c2, pos, n2)
        ok, r = call(lambda: (lambda an: (an.get_space_group_number(), an.get_is_chiral()))(SymmetryAnalyzer(at, symmetry_tol=1e-3)))
        if not ok:
            return out.fail("returns-normally", "%s: %r" % (tag, r), key="exc:" + exc_key(r))
        sgn, chiral = r
        expect = int(sgn) in spgref.sohncke()
        if bool(chiral) != expect:
            out.fail("chiral-iff-sohncke", "%s description (%s): detected group %d is %sa Sohncke group but get_is_chiral() = %r"
                     % (tag, gx.pres_class(pres), sgn, "" if expect else "not ", chiral), key="chiral-iff-sohncke:" + ("sohncke" if expect else "achiral"))
        flags.append((int(sgn), bool(chiral), int(ds.number)))
    # history: one analyser object re-used through the public set_system() for a different crystal must answer for the
    # crystal it currently holds (a stale cache would repeat the previous answer)
    if desc.get("other") is not None:
        oc, of, on, ost = gx.conditioned(desc["other"])
        ds_o = gx.well_conditioned(oc, of @ oc, on) if ost == "ok" else None
        if ds_o is not None:
            at_o = gx.make_atoms(oc, of @ oc, on)
            c2, pos, n2 = gx.apply_presentation(cell, frac, nums, p)
            at_a = gx.make_atoms(c2, pos, n2)

            inplace = bool(desc["crystal"]["orbits"] and int(desc["crystal"]["orbits"][0]["Z"]) % 2 == 0)

            def reuse():
                live = at_a.copy()
                an = SymmetryAnalyzer(live, symmetry_tol=1e-3)
                first = an.get_is_chiral()
                if inplace:
                    # the same Atoms object modified in place (trajectory loop) and handed over again
                    del live[list(range(len(live)))]
                    live.extend(at_o)
                    live.set_cell(at_o.get_cell(), scale_atoms=False)
                    an.set_system(live)
                else:
                    an.set_system(at_o)
                return first, int(an.get_space_group_number()), bool(an.get_is_chiral())
            ok, r = call(reuse)
            if not ok:
                out.fail("returns-normally", "set_system history: %r" % r, key="exc-history:" + exc_key(r))
            else:
                if r[1] != int(ds_o.number):
                    out.fail("group-after-set_system", "after set_system() the analyser reports group %d, the crystal it now holds has group %d (independent search)" % (r[1], int(ds_o.number)))
                exp = int(ds_o.number) in spgref.sohncke()
                out.cls("history:set_system" + ("-inplace" if inplace else ""), "history:class-changes" if exp != bool(r[0]) else "history:class-same")
                if r[2] != exp:
                    out.fail("chiral-iff-sohncke-after-set_system", "after set_system() the analyser holds a group-%d crystal (%sSohncke) but get_is_chiral() = %r (it answered %r for the previous crystal)"
                             % (int(ds_o.number), "" if exp else "not ", r[2], r[0]))
    # the answer must not depend on how the crystal is supplied: both descriptions are the same well-conditioned crystal (the
    # independent symmetry search finds the same group for both), so the two flags must agree - also when MatID's own group
    # detection was thrown off by the presentation
    if flags[0][2] == flags[1][2] and flags[0][1] != flags[1][1]:
        out.fail("presentation-independent", "flag %r in the standard setting (detected group %d), %r after %s (detected group %d); independent search: group %d for both"
                 % (flags[0][1], flags[0][0], flags[1][1], gx.pres_class(p), flags[1][0], flags[0][2]))
    _COVER[flags[0][0]] = _COVER.get(flags[0][0], 0) + 1
    out.cls("sohncke" if flags[0][0] in spgref.sohncke() else "achiral", *gx.pres_labels(p), "intended-group" if flags[0][0] == desc["crystal"]["sg"] else "promoted")
    out.nontrivial = bool(p.get("shear") is not None or p.get("hnf") is not None or p.get("lefthanded"))
    return out
