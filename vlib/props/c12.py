"""C12 - original, primitive and conventional descriptions are mutually consistent (incl. a stateful getter-order machine)."""
import collections
from fractions import Fraction

import numpy as np
from hypothesis import strategies as st

from vlib.case import Outcome, call, exc_key
from vlib.gen import crystals as gx
from vlib.oracles import spgref
from vlib.props import symcommon as sc

ID = "C12"
LEVEL = "exploration"
RULE = ("C05 crystal family stratified by centring letter (P, A, C, I, F, R forced in equal shares) x presentation, plus a getter call order: the nine "
        "lazily cached getters of one SymmetryAnalyzer are called in a Hypothesis-drawn order (history) before the relations are evaluated; distinct = SHA-1 "
        "of the descriptor; non-trivial = centred group (not P) or supercell input")
ASSUMPTIONS = sc.FILTER_ASSUMPTIONS + [
    "centring multiplicity from the first letter of spglib's international symbol of the detected group (P1, A/C/I 2, R 3, F 4)",
    "primitivity of the primitive system checked with spglib.standardize_cell(to_primitive=True, no_idealize=True): atom count must not drop",
    "results of a second analyser queried in canonical order are the reference for order-independence of the cached getters",
]
GETTERS = ["get_conventional_system", "get_primitive_system", "get_wyckoff_letters_original", "get_wyckoff_letters_primitive",
           "get_wyckoff_letters_conventional", "get_equivalent_atoms_original", "get_equivalent_atoms_primitive",
           "get_equivalent_atoms_conventional", "get_wyckoff_sets_conventional"]


# a history: any sequence of getter calls (repeats allowed); getters not mentioned are fetched afterwards in canonical order
# index len(GETTERS) stands for set_system(<the other crystal>): the analyser object is re-used for another structure
_orders = st.lists(st.integers(0, len(GETTERS)), min_size=1, max_size=14)


@gx.functools.lru_cache(maxsize=None)
def groups_by_centring():
    d = collections.defaultdict(list)
    for sg in range(1, 231):
        d[spgref.centring(sg)].append(sg)
    return dict(d)


def plan(tier):
    return {"n_random": 2000 if tier == "quick" else 30000, "item_draws": 1, "time_s": 500 if tier == "quick" else 1750}


def items(tier):
    return sc.patterns(0 if tier == "quick" else 2)


def item_strategy(item, tier):
    return st.fixed_dictionaries({"crystal": sc.pattern_strategy(item).map(lambda d: d["crystal"]), "pres": gx.presentations(),
                                  "order": _orders, "other": gx.crystal_descs()})


@st.composite
def _cases(draw):
    c = draw(st.sampled_from(["A", "R", "F", "C", "I", "P"]))
    sgs = groups_by_centring()[c]
    return {"crystal": draw(gx.crystal_descs(sgs=sgs)), "pres": draw(gx.presentations()),
            "order": draw(_orders), "other": draw(gx.crystal_descs())}


def strategy(tier):
    return _cases()


def _hist(numbers, letters):
    c = collections.Counter(zip([str(x) for x in letters], [int(z) for z in numbers]))
    n = len(numbers)
    return {k: Fraction(v, n) for k, v in c.items()}


def _fetch(an, name):
    f = getattr(an, name)
    return f(False) if name == "get_wyckoff_sets_conventional" else f()


def _norm(name, v):
    if name.endswith("_system"):
        return (np.round(np.asarray(v.get_cell()), 9).tolist(), np.round(v.get_positions(), 9).tolist(), v.get_atomic_numbers().tolist())
    if name == "get_wyckoff_sets_conventional":
        return sorted((s.wyckoff_letter, s.element, tuple(s.indices)) for s in v)
    return [str(x) for x in np.asarray(v).tolist()]


def run_case(desc):
    import spglib
    from matid.symmetry import SymmetryAnalyzer
    out = Outcome()
    c = sc.prepare(desc, out)
    if c is None:
        return out
    at = c.at
    n = len(at)
    # history: call the cached getters in the drawn order on one analyser ...
    an = sc.new_analyzer(c, at)
    got = {}
    SET = len(GETTERS)
    order = list(desc["order"])
    # the other crystal (for set_system events); if it cannot be built the events are dropped
    other_at = None
    if SET in order and desc.get("other") is not None:
        oc, of, on, ost = gx.conditioned(desc["other"])
        if ost == "ok" and gx.well_conditioned(oc, of @ oc, on) is not None:
            other_at = gx.make_atoms(oc, of @ oc, on)
    if other_at is None:
        order = [i for i in order if i != SET]
    # the history must end on the crystal under test: an odd number of switches gets one more
    if order.count(SET) % 2 == 1:
        order.append(SET)
    cur = [at, other_at]
    inplace = bool(SET in order and sum(order) % 2 == 0)     # half of the histories re-use one mutated Atoms object
    live = at.copy()
    if inplace:
        an = sc.new_analyzer(c, live)
        out.cls("history:set_system-inplace")
    hist = order + ([i for i in range(len(GETTERS)) if i not in order] if SET not in order else list(range(len(GETTERS))))
    names = ["set_system" if j == SET else GETTERS[j] for j in hist]
    if SET in order:
        out.cls("history:set_system")
    for pos, i in enumerate(hist):
        if i == SET:
            cur.reverse()
            if inplace:
                # the SAME Atoms object is modified in place (a relaxation / trajectory loop) and handed over again
                nxt = cur[0]
                del live[list(range(len(live)))]
                live.extend(nxt)
                live.set_cell(nxt.get_cell(), scale_atoms=False)
                live.set_pbc(nxt.get_pbc())
                ok, v = call(an.set_system, live)
            else:
                ok, v = call(an.set_system, cur[0])
            if not ok:
                return out.fail("returns-normally", "set_system (call %d of history %s): %r" % (pos, names, v), key="exc:set_system:" + exc_key(v))
            got = {}
            continue
        name = GETTERS[i]
        ok, v = call(_fetch, an, name)
        if not ok:
            if cur[0] is not at:
                continue      # failures on the auxiliary crystal are not this case's business
            return out.fail("returns-normally", "%s (call %d of history %s): %r" % (name, pos, names, v), key="exc:%s:%s" % (name, exc_key(v)))
        if name in got and _norm(name, v) != _norm(name, got[name]):
            out.fail("getter-repeatable", "%s returns something else on a repeated call (history %s)" % (name, names), key="repeat:" + name)
        got[name] = v
    # ... and once more in canonical order on a fresh analyser: the answers must not depend on the history
    an2 = sc.new_analyzer(c, at)
    for name in GETTERS:
        ok, v = call(_fetch, an2, name)
        if ok and _norm(name, v) != _norm(name, got[name]):
            out.fail("getter-order-independent", "%s differs between history %s and the canonical order" % (name, names), key="order:" + name)
    conv, prim = got["get_conventional_system"], got["get_primitive_system"]
    lo, lp, lc = (np.array(got["get_wyckoff_letters_" + k]) for k in ("original", "primitive", "conventional"))
    eo, ep, ec = (np.array(got["get_equivalent_atoms_" + k]) for k in ("original", "primitive", "conventional"))
    # one entry per atom
    for nm, arr, system in (("letters-original", lo, at), ("letters-primitive", lp, prim), ("letters-conventional", lc, conv),
                            ("equivalent-original", eo, at), ("equivalent-primitive", ep, prim), ("equivalent-conventional", ec, conv)):
        if len(arr) != len(system):
            out.fail("one-entry-per-atom", "%s has %d entries for %d atoms" % (nm, len(arr), len(system)), key="one-entry-per-atom:" + nm)
    if out.failures:
        return out
    # the returned System objects report letters / equivalence classes themselves (System.get_wyckoff_letters / get_equivalent_atoms):
    # where they do, it must be the analyser's answer for that system
    for nm, system, l, e in (("primitive", prim, lp, ep), ("conventional", conv, lc, ec)):
        wl = getattr(system, "get_wyckoff_letters", lambda: None)()
        if wl is not None:
            out.cls("system-object-letters")
            if [str(x) for x in np.asarray(wl).tolist()] != [str(x) for x in l.tolist()]:
                out.fail("system-object-letters", "%s system object reports letters %s, the analyser reports %s for it" % (nm, list(wl)[:12], l.tolist()[:12]), key="system-object-letters:" + nm)
        we = getattr(system, "get_equivalent_atoms", lambda: None)()
        if we is not None and len(we) == len(e):
            we = np.asarray(we)
            same = all(len(set(e[we == k].tolist())) == 1 for k in set(we.tolist())) and all(len(set(we[e == k].tolist())) == 1 for k in set(e.tolist()))
            if not same:
                out.fail("system-object-equivalent-atoms", "%s system object partitions its atoms differently from the analyser's equivalent atoms" % nm, key="system-object-equivalent:" + nm)
    # equivalent atoms share element and letter
    for nm, system, l, e in (("original", at, lo, eo), ("primitive", prim, lp, ep), ("conventional", conv, lc, ec)):
        nums = system.get_atomic_numbers()
        for cls in set(e.tolist()):
            m = e == cls
            if len(set(nums[m].tolist())) != 1 or len(set(l[m].tolist())) != 1:
                out.fail("equivalent-share-element-letter", "%s system: equivalence class %s mixes elements %s / letters %s" % (nm, cls, sorted(set(nums[m].tolist())), sorted(set(l[m].tolist()))),
                         key="equivalent-share:" + nm)
                break
    # exact ratio of (letter, element) counts
    h = [_hist(s.get_atomic_numbers(), l) for s, l in ((at, lo), (prim, lp), (conv, lc))]
    if not (h[0] == h[1] == h[2]):
        which = "original-vs-conventional" if h[0] != h[2] else "primitive-vs-conventional"
        out.fail("letter-element-ratio", "(letter, element) fractions differ: original %s primitive %s conventional %s" % tuple({k: str(v) for k, v in x.items()} for x in h), key="ratio:" + which)
    cen = spgref.centring(c.sg)
    m = spgref.CENTRING_MULT[cen]
    vp, vc = abs(np.linalg.det(np.asarray(prim.get_cell()))), abs(np.linalg.det(np.asarray(conv.get_cell())))
    if len(prim) * m != len(conv):
        out.fail("primitive-atom-count", "centring %s: primitive %d atoms, conventional %d (expected ratio %d)" % (cen, len(prim), len(conv), m), key="primitive-atom-count:" + cen)
    if abs(vp * m - vc) > 1e-6 * vc:
        out.fail("primitive-volume", "centring %s: primitive volume %.6f, conventional %.6f (expected ratio %d)" % (cen, vp, vc, m), key="primitive-volume:" + cen)
    pf = np.linalg.solve(np.asarray(prim.get_cell()).T, prim.get_positions().T).T
    pcell = (np.asarray(prim.get_cell()), pf, prim.get_atomic_numbers())
    dp = spglib.get_symmetry_dataset(pcell, symprec=c.otol)
    if dp is None or int(dp.number) != c.sg:
        out.fail("primitive-same-group", "primitive system has group %s, input %d" % (getattr(dp, "number", None), c.sg), key="primitive-same-group:" + cen)
    pp = spglib.standardize_cell(pcell, to_primitive=True, no_idealize=True, symprec=c.otol)
    if pp is None or len(pp[2]) != len(prim):
        out.fail("primitive-is-primitive", "spglib reduces the 'primitive' system from %d to %s atoms" % (len(prim), None if pp is None else len(pp[2])), key="primitive-is-primitive:" + cen)
    v0 = abs(np.linalg.det(c.cell)) / n
    if abs(vp / len(prim) - v0) > 1e-4 * v0:
        out.fail("volume-per-atom", "primitive %.6f A^3/atom, input %.6f" % (vp / len(prim), v0))
    # primitive atoms lie inside their cell
    out.nontrivial = bool(cen != "P" or desc["pres"].get("hnf") is not None)
    return out


def extra_engine(tier, seed, work):
    """Hypothesis rule-based state machine over one analyser object (vlib/stateful_sym.py): getters in any order, set_system
    with new or in-place-modified Atoms, reset(); model = a fresh analyser for the crystal currently held."""
    from vlib import stateful_sym
    return stateful_sym.campaign(ID, seed, 40 if tier == "quick" else 400)
