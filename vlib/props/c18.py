"""C18 - classifier recognises pristine slabs and monolayers and isolates adsorbates."""
import numpy as np
from hypothesis import strategies as st

from vlib.case import Outcome, call, exc_key
from vlib.gen import materials as gm

ID = "C18"
LEVEL = "exploration"
RULE = ("fixed panel: every (material, facet, 3-5 layers, 0-2 on-top adsorbates of a species absent from the slab) and every (monolayer, supercell) "
        "combination x 2 presentations (rotation, translation, permutation, adsorbate sites) derived deterministically from the combination; quick = the "
        "eighth of the panel selected by VERIF_SEED mod 8, thorough = the whole panel; slabs of the C02 library on the facets the property lists (bcc only (100)/(001); hcp/wurtzite not (111)), lateral size >= 9 A, "
        "pbc TTT with 8 A vacuum on both sides; distinct = SHA-1 of the descriptor; non-trivial = at least one adsorbate, or a non-identity rotation")
ASSUMPTIONS = [
    "independent precondition as in C02 on the pristine slab (margin 0.15 A)",
    "adsorbate height: covalent radii sum + 0.2 A above a top-layer atom; species from (H, O, N, F, Cl) not present in the slab",
    "known findings are keyed by (material, facet, layers, with/without adsorbate); a combination that fails and is not listed is reported",
]
ADS = [1, 8, 7, 9, 17]


def EXHAUSTIVE(tier):
    return tier == "thorough"


def plan(tier):
    return {"n_random": 0, "item_draws": 1, "time_s": 900 if tier == "quick" else 1750, "shrink_evals": 0}


def combos():
    out = []
    lib = gm.library()
    for name in gm.names():
        st_ = lib[name][0]
        for f in gm.FACETS:
            if st_ == "bcc" and f in ((1, 1, 0), (1, 1, 1)):
                continue
            if st_ in ("hcp", "wurtzite") and f == (1, 1, 1):
                continue
            for l in (3, 4, 5):
                for k in (0, 1, 2):
                    out.append({"mat": name, "form": "slab", "facet": list(f), "layers": l, "nads": k})
    for m in gm.MONOLAYERS:
        for rep in ((3, 3), (4, 5), (6, 6), (3, 6)):
            out.append({"mat": m, "form": "monolayer", "rep": list(rep)})
    return out


def key_of(c):
    if c["form"] == "monolayer":
        return "%s:monolayer" % c["mat"]
    return "%s:%s:%d:%s" % (c["mat"], "".join(str(x) for x in c["facet"]), c["layers"], "ads" if c["nads"] else "clean")


# --- why the presentations are derandomised -------------------------------------------------------------------------
# With Hypothesis-drawn rotations / adsorbate sites the set of failing (material, facet, layers) combinations did not
# converge: every additional thorough run (3376 cases) exposed 2-3 combinations that fail for ~1 in 10-50 presentations
# (seven runs, DESIGN 9.5).  A known-findings list can then never be closed and the check would raise alarms on the
# unchanged tree.  The explored family is therefore a FIXED panel: every combination with PRESENTATIONS_PER_COMBO
# presentations derived deterministically from the combination itself (SHA-1 -> rotation table, translation, permutation
# seed, adsorbate sites).  The panel is a pure function of this file, so the failing subset on the unchanged tree is a
# fixed finite list (known_findings.json); any combination that changes from holding to failing is reported.
# VERIF_SEED only selects which eighth of the panel the quick tier evaluates.
PRESENTATIONS_PER_COMBO = 3      # the third presentation additionally moves the slab half-way along its normal: it then lies across the periodic boundary
ROT = [[1.0, 0.0, 0.0, 0.0], [0.3, 0.5, -0.7, 0.2], [-0.6, 0.1, 0.4, 0.9], [0.9, -0.8, 0.3, -0.1], [0.2, 0.9, 0.6, -0.5], [0.0, 1.0, 0.0, 0.0],
       [-0.4, -0.4, 0.8, 0.3], [0.7, 0.2, 0.2, 0.7]]


def _h(key, salt):
    import hashlib
    return int(hashlib.sha1(("%s|%s" % (key, salt)).encode()).hexdigest()[:12], 16)


def panel():
    out = []
    for c in combos():
        k = key_of(c) + (":%s" % c.get("rep") if c["form"] == "monolayer" else ":%d" % c["nads"])
        for j in range(PRESENTATIONS_PER_COMBO):
            h = _h(k, j)
            pres = {"quat": ROT[h % len(ROT)], "trans": [((h >> 8) % 1000) / 100.0 - 5.0, ((h >> 20) % 1000) / 100.0 - 5.0, ((h >> 32) % 1000) / 100.0 - 5.0],
                    "perm": (h >> 4) % (2 ** 32), "noise_seed": 0, "sbc_seed": 0}
            if j == 1:
                pres["payload"] = (h >> 3) % (2 ** 32)      # second presentation: FixAtoms on a subset, tags, magmoms, charges attached
            item = {"combo": c, "pres": pres, "ads_seed": _h(k, "ads%d" % j) % (2 ** 32), "panel_index": j}
            if j == 2:
                item["wrap_frac"] = 0.35 + ((h >> 40) % 30) / 100.0      # 0.35 .. 0.64 of the cell height
            out.append(item)
    return out


def items(tier):
    p = panel()
    if tier == "quick":
        import os
        try:
            r = int(os.environ.get("VERIF_SEED", "1") or 1) % 8
        except ValueError:
            r = 1
        return p[r::8]
    return p


def item_strategy(item, tier):
    return st.just(item)


def strategy(tier):
    return st.just(None)


def run_case(desc):
    from ase import Atoms
    from ase.data import covalent_radii
    from matid.classification.classifier import Classifier
    import matid.classification.classifications as mc
    out = Outcome()
    c = desc["combo"]
    ads = []
    if c["form"] == "monolayer":
        s = gm.monolayer(c["mat"]).repeat((c["rep"][0], c["rep"][1], 1))
        s.set_pbc(True)
    else:
        st_, prim, conv = gm.library()[c["mat"]]
        s, why = gm.make(c["mat"], "slab", c["facet"], c["layers"], True, lateral_min=9.0)
        if s is None:
            out.discard = "precondition:" + why
            return out
        s.set_pbc(True)
        if len(s) > 250:
            out.discard = "precondition:too-big"
            return out
        pc = gm.precondition(s, 0.0)
        if pc:
            out.discard = "precondition:" + pc
            return out
        if c["nads"]:
            r = np.random.RandomState(desc["ads_seed"])
            present = set(s.get_atomic_numbers().tolist())
            zs = [z for z in ADS if z not in present]
            pos = s.get_positions()
            top = pos[:, 2].max()
            tops = [j for j in range(len(s)) if pos[j, 2] > top - 0.3]
            pick = r.choice(len(tops), size=min(c["nads"], len(tops)), replace=False)
            for t in pick:
                j = tops[int(t)]
                Z = zs[r.randint(len(zs))]
                d = covalent_radii[Z] + covalent_radii[s.get_atomic_numbers()[j]] + 0.2
                s += Atoms(numbers=[Z], positions=[pos[j] + np.array([0.0, 0.0, d])])
                ads.append(len(s) - 1)
    if desc.get("wrap_frac"):
        # the same periodic structure, stored with the slab (and its adsorbates) across the periodic boundary of the normal axis
        s = s.copy()
        s.translate(np.asarray(s.get_cell())[2] * float(desc["wrap_frac"]))
        s.wrap()
        out.cls("across-boundary")
    s2, perm = gm.present(s, desc["pres"], 0.0)
    inv = {int(old): new for new, old in enumerate(perm)}
    ads2 = sorted(inv[a] for a in ads)
    key = key_of(c)
    out.cls("form=" + c["form"], "nads=%d" % len(ads))
    if c["form"] == "slab":
        out.cls("type=" + gm.library()[c["mat"]][0], "facet=" + "".join(str(x) for x in c["facet"]))
    out.nontrivial = bool(ads or desc["pres"]["quat"] not in ([0.0, 0.0, 0.0, 0.0], [1.0, 0.0, 0.0, 0.0]))
    ok, r = call(lambda: Classifier().classify(s2))
    if not ok:
        return out.fail("returns-normally", "%s: %r" % (key, r), key="exc:%s:%s" % (key, exc_key(r)))
    t = type(r)
    if c["form"] == "monolayer":
        if t is not mc.Material2D:
            out.fail("monolayer-is-material2d", "%s %s: classified as %s" % (key, c["rep"], t.__name__), key="class:" + key)
        elif len(r.outliers) != 0:
            out.fail("monolayer-no-outliers", "%s: %d outliers" % (key, len(r.outliers)), key="outliers:" + key)
        return out
    if t is not mc.Surface:
        out.fail("slab-is-surface", "%s (%d atoms, %d adsorbates): classified as %s" % (key, len(s2), len(ads), t.__name__), key="class:" + key)
    else:
        got = sorted(int(i) for i in r.outliers)
        if got != ads2:
            extra = sorted(set(got) - set(ads2)); missing = sorted(set(ads2) - set(got))
            out.fail("outliers-are-adsorbates", "%s: %d slab atoms reported as outliers, %d adsorbates not reported (outliers %d, adsorbates %d)" % (key, len(extra), len(missing), len(got), len(ads2)), key="outliers:" + key)
    return out
