"""C16 - periodic neighbour search and position matching are complete and exact."""
import numpy as np
from hypothesis import strategies as st

from vlib.case import Outcome, call, exc_key
from vlib.gen import cells as gc
from vlib.oracles import images as oim
from vlib.oracles import mic as omic
from vlib.props.c10 import n_images

ID = "C16"
LEVEL = "exploration"
RULE = ("case = (cell descriptor with 0-3 zeroed non-periodic vectors, pbc, 1-12 atoms inside the cell, extension and cutoff in "
        "0.2-4 A, up to 4 query points: uniform in the cell or near an atom image, matching tolerance <= min(extension, cutoff)); "
        "distinct = SHA-1 of the descriptor; non-trivial = >=1 periodic axis and the required image set contains an image with a non-zero cell offset")
ASSUMPTIONS = [
    "required image set M computed by brute force: all offsets within ceil(ext/height)+1, point-to-parallelepiped distance by bounded least squares (scipy BVLS) with analytic lower/upper bounds",
    "images within 1e-7 of the extension/cutoff/tolerance boundary are not judged; exact ties between the two nearest images are not judged",
    "the boundary itself is judged only where it is exact in floating point: orthogonal power-of-two cells with atoms on a 0.25 A grid and a query exactly one tolerance (0.25/0.5/1 A) from the unique nearest image; 'maximum allowed distance' (docstring) includes equality",
    "matching is exercised with tolerance <= min(extension, cutoff), as every caller in matid guarantees",
    "cases needing more than 3e4 image atoms or 2e6 bins are discarded and counted (cost)",
]
M = 1e-7


def plan(tier):
    return {"n_random": 6000 if tier == "quick" else 200000, "time_s": 400 if tier == "quick" else 1700}


@st.composite
def _cases(draw):
    cell = draw(gc.cell_descs(lo=0.5, hi=12.0))
    pbc = draw(gc.pbcs)
    zero = [False, False, False]
    if draw(st.integers(0, 3)) == 0:
        zero = [(not pbc[i]) and draw(st.booleans()) for i in range(3)]
    n = draw(st.integers(1, 12))
    fl = st.floats(0.0, 1.0, exclude_max=True, allow_nan=False, width=64)
    frac = [[draw(fl) for _ in range(3)] for _ in range(n)]
    Z = [draw(st.sampled_from([1, 6, 8])) for _ in range(n)]
    ext = draw(gc.ffloat(0.2, 4.0))
    cut = draw(gc.ffloat(0.2, 4.0))
    queries = []
    if not any(zero):
        for _ in range(draw(st.integers(1, 4))):
            if draw(st.booleans()):
                q = {"kind": "near", "atom": draw(st.integers(0, n - 1)), "delta": [draw(gc.ffloat(-1.0, 1.0)) for _ in range(3)],
                     "scale": draw(gc.ffloat(0.0, 1.5))}
            else:
                q = {"kind": "uniform", "frac": [draw(fl) for _ in range(3)]}
            q["tolfrac"] = draw(gc.ffloat(0.05, 1.0))
            q["Z"] = draw(st.sampled_from([1, 6, 8]))
            q["shift"] = [draw(st.integers(-2, 2)) for _ in range(3)]
            queries.append(q)
    d = {"cell": cell, "pbc": pbc, "zero": zero, "frac": frac, "Z": Z, "ext": ext, "cut": cut, "queries": queries}
    if draw(st.integers(0, 4)) == 0:
        # exact boundary: an orthogonal cell and atoms on a quarter-Angstrom grid, a query exactly `tol` away from an atom (all
        # numbers dyadic, so the distance IS the tolerance in floating point): "within the tolerance" includes the boundary
        na = draw(st.integers(1, 4))
        d["dyadic"] = {"L": [draw(st.sampled_from([4.0, 8.0, 2.0])) for _ in range(3)], "pbc": draw(gc.pbcs),
                       "grid": [[draw(st.integers(0, 31)) for _ in range(3)] for _ in range(na)], "Z": [draw(st.sampled_from([1, 6, 8])) for _ in range(na)],
                       "tol": draw(st.sampled_from([0.5, 0.25, 1.0])), "cutmult": draw(st.sampled_from([1.0, 2.0])), "atom": draw(st.integers(0, na - 1)),
                       "axis": draw(st.integers(0, 2)), "sign": draw(st.sampled_from([1.0, -1.0])), "qZ": draw(st.sampled_from([1, 6, 8]))}
    return d


def _dyadic(dy, out):
    """query exactly `tol` away from an atom (or from its periodic image): must be a match / substitution with the right offset"""
    import itertools
    import matid.geometry as mg
    from ase import Atoms
    L = np.array(dy["L"], float)
    cell = np.diag(L)
    pbc = np.array(dy["pbc"], bool)
    pos = np.array([[(g * 0.25) % l for g, l in zip(row, L)] for row in dy["grid"]], float)
    keep = [0] + [i for i in range(1, len(pos)) if not any(np.array_equal(pos[i], pos[j]) for j in range(i))]
    if dy["atom"] not in keep:
        return
    a = keep.index(dy["atom"])
    pos, Z = pos[keep], np.array(dy["Z"], int)[keep]
    tol, ax = float(dy["tol"]), int(dy["axis"])
    q = pos[a].copy()
    q[ax] += dy["sign"] * tol
    if not (0.0 <= q[ax] < L[ax]):
        if not pbc[ax]:
            return
        q[ax] = q[ax] - L[ax] if q[ax] >= L[ax] else q[ax] + L[ax]
    # exact image distances (every term is dyadic; the sum of squares is exact, the nearest one equals tol**2 exactly)
    cand = []
    for i in range(len(pos)):
        for off in itertools.product(*[(-1, 0, 1) if pbc[k] else (0,) for k in range(3)]):
            v = q - (pos[i] + np.array(off, float) * L)
            cand.append((float(v @ v), i, off))
    cand.sort()
    if cand[0][0] != tol * tol or (len(cand) > 1 and cand[1][0] < (tol + 1e-6) ** 2):
        return          # not the unique nearest image at exactly the tolerance
    best, off = cand[0][1], cand[0][2]
    cut = tol * float(dy["cutmult"])
    out.cls("exact-boundary:distance==tolerance", "exact-boundary:cutoff==tolerance" if cut == tol else "exact-boundary:cutoff>tolerance")
    at = Atoms(numbers=Z, positions=pos, cell=cell, pbc=pbc)
    ok, cl = call(mg.get_cell_list, pos.copy(), cell.copy(), pbc.copy(), cut, cut)
    if not ok:
        return out.fail("returns-normally", "get_cell_list (dyadic case): %r" % cl, key="exc:" + exc_key(cl))
    num = int(dy["qZ"])
    ok, res = call(mg.get_matches, at, cl, q[None, :].copy(), [num], tol)
    if not ok:
        return out.fail("returns-normally", "get_matches (dyadic case): %r" % res, key="exc:" + exc_key(res))
    m, sb, vac, ci = res
    want = "match" if Z[best] == num else "substitution"
    got = "match" if m[0] is not None else "substitution" if sb[0] is not None else "vacancy"
    if got != want or (got == "match" and int(m[0]) != best) or (got == "substitution" and int(sb[0].index) != best):
        out.fail("match-at-tolerance", "nearest image (atom %d, offset %s) lies exactly at the tolerance %.4g: expected %s, got %s" % (best, list(off), tol, want, got), key="match-at-tolerance")
    elif not np.array_equal(np.array(ci[0], float), np.array(off, float)):
        out.fail("match-offset", "image exactly at the tolerance: cell offset %s reported, image has offset %s" % (np.array(ci[0]).tolist(), list(off)), key="match-offset-at-tolerance")
    # (get_matches_simple is not judged at the exact boundary: it wraps the query through fractional coordinates first, which is
    # not exact even for these cells - my first version of this stratum raised that as a false alarm at seed 3)


def strategy(tier):
    return _cases()


def run_case(desc):
    import matid.geometry as mg
    from ase import Atoms
    out = Outcome()
    if desc.get("dyadic"):
        _dyadic(desc["dyadic"], out)
    cc = gc.build_cell(desc["cell"])
    pbc = np.array(desc["pbc"], bool)
    zero = np.array(desc["zero"], bool)
    cell = cc.copy()
    cell[zero] = 0.0
    ccomp = oim.completed(cell)
    frac = np.array(desc["frac"], float)
    pos = np.ascontiguousarray(frac @ ccomp)
    Z = np.array(desc["Z"], int)
    n = len(pos)
    ext, cut = float(desc["ext"]), float(desc["cut"])
    nim, nbins = n_images(ccomp, pbc, ext, n, min(cut, 1e9))
    if nim > 3e4 or nbins > 2e6:
        out.discard = "too-many-images"
        return out
    out.cls("cell=" + desc["cell"]["kind"], "npbc=%d" % pbc.sum(), "nzero=%d" % zero.sum(), "ext<cut" if ext < cut else "ext>=cut")
    scale = max(1.0, float(np.abs(pos).max()) + ext + float(np.abs(cell).max()))
    atol = 1e-9 * scale
    at = Atoms(numbers=Z, positions=pos, cell=cell, pbc=pbc)

    # ---------------- extended system -------------------------------------------------------------------
    ok, E = call(mg.get_extended_system, at, ext)
    if not ok:
        return out.fail("returns-normally", "get_extended_system: %r" % E, key="exc:" + exc_key(E))
    Ep = np.array(E.positions, float); Ei = np.array(E.indices, int); Ef = np.array(E.factors, float); En = np.array(E.atomic_numbers, int)
    if not (len(Ei) >= n and np.array_equal(Ei[:n], np.arange(n)) and np.abs(Ep[:n] - pos).max() <= 0 and (Ef[:n] == 0).all()):
        out.fail("originals-first", "the first n entries are not the original atoms with zero offset")
    if not np.array_equal(Ef, np.rint(Ef)):
        out.fail("integer-offsets", "non-integer cell offset")
    elif (Ef[:, ~pbc] != 0).any():
        out.fail("offset-nonperiodic-zero", "non-zero offset along a non-periodic axis")
    if Ei.min() < 0 or Ei.max() >= n:
        out.fail("index-range", "original index out of range")
        return out
    err = np.abs(Ep - (pos[Ei] + Ef @ cell)).max()
    if err > atol:
        out.fail("genuine-image", "position != original + offset.cell (max err %.3g)" % err)
    if not np.array_equal(En, Z[Ei]):
        out.fail("species", "atomic number of an image differs from its original")
    keys = list(zip(Ei.tolist(), map(tuple, np.rint(Ef).astype(int).tolist())))
    kset = set(keys)
    if len(kset) != len(keys):
        out.fail("exactly-once", "%d duplicated images" % (len(keys) - len(kset)))
    sure, amb = oim.images_near_cell(pos, cell, pbc, ext, margin=M)
    missing = [k for k in sure if k not in kset]
    if missing:
        out.fail("complete-extension", "image (atom %d, offset %s) lies within the extension %.6g of the cell but is absent" % (missing[0][0], missing[0][1], ext))
    nz_required = any(any(o) for _, o in sure)
    out.nontrivial = bool(pbc.any() and nz_required)

    # ---------------- neighbour queries and matching -----------------------------------------------------
    if desc["queries"]:
        ok, cl = call(mg.get_cell_list, pos.copy(), cell.copy(), pbc.copy(), ext, cut)
        if not ok:
            return out.fail("returns-normally", "get_cell_list: %r" % cl, key="exc:" + exc_key(cl))
        Mpos = np.array([pos[i] + np.array(o, float) @ cell for i, o in sure]) if sure else np.zeros((0, 3))
        batch = []
        for q in desc["queries"]:
            if q["kind"] == "uniform":
                qp = np.array(q["frac"], float) @ cell
            else:
                d = np.array(q["delta"], float)
                nd = np.linalg.norm(d)
                d = d / nd if nd > 1e-12 else np.zeros(3)
                tol0 = q["tolfrac"] * min(ext, cut)
                raw = pos[q["atom"] % n] + d * q["scale"] * tol0
                f = np.linalg.solve(cell.T, raw)
                f[pbc] %= 1.0
                f[~pbc] = np.clip(f[~pbc], 0.0, 1.0)
                qp = f @ cell
            out.cls("query=" + q["kind"])
            batch.append((qp.copy(), int(q["Z"])))
            ok, r = call(cl.get_neighbours_for_position, float(qp[0]), float(qp[1]), float(qp[2]))
            if not ok:
                return out.fail("returns-normally", "get_neighbours_for_position: %r" % r, key="exc:" + exc_key(r))
            got = set()
            for idx, io, dd, disp, fac in zip(r.indices, r.indices_original, r.distances, r.displacements, r.factors):
                fac = np.array(fac, float)
                if not (0 <= io < n) or not np.array_equal(fac, np.rint(fac)):
                    out.fail("query-entry", "returned entry has a bad index/offset")
                    continue
                p = pos[io] + fac @ cell
                key = (int(io), tuple(int(x) for x in fac))
                if key not in kset:
                    out.fail("query-entry", "returned image is not part of the extended system")
                if abs(np.linalg.norm(qp - p) - dd) > atol or np.abs(np.array(disp) - (qp - p)).max() > atol:
                    out.fail("query-exact", "distance/displacement of a returned neighbour is wrong (%.9g vs %.9g)" % (dd, np.linalg.norm(qp - p)))
                if np.linalg.norm(qp - p) > cut + M:
                    out.fail("query-beyond-cutoff", "returned neighbour at %.9g > cutoff %.9g" % (np.linalg.norm(qp - p), cut))
                got.add(key)
            if len(Mpos):
                dM = np.linalg.norm(Mpos - qp, axis=1)
                for j in np.where(dM <= cut - M)[0]:
                    if sure[j] not in got:
                        out.fail("query-complete", "image (atom %d, offset %s) at %.9g <= cutoff %.9g of the query point not returned" % (sure[j][0], sure[j][1], dM[j], cut))
                        break
            # ---- matching -------------------------------------------------------------------------------
            tol = q["tolfrac"] * min(ext, cut)
            num = int(q["Z"])
            v, f, dmin, gap = omic.mic(qp[None, :] - pos, cell, pbc)   # nearest image of every atom
            order = np.argsort(dmin)
            best = order[0]
            d0 = dmin[best]
            tie = (len(order) > 1 and dmin[order[1]] - d0 < M) or gap[best] < M
            ok, res = call(mg.get_matches, at, cl, qp[None, :].copy(), [num], tol)
            if not ok:
                return out.fail("returns-normally", "get_matches: %r" % res, key="exc:" + exc_key(res))
            m, s, vac, ci = res
            if abs(d0 - tol) < M or tie:
                out.cls("match=ambiguous")
            elif d0 > tol:
                out.cls("match=vacancy")
                if m[0] is not None or s[0] is not None or len(vac) != 1:
                    out.fail("match-vacancy", "nothing within tolerance %.6g (nearest %.6g) but result is match=%r subst=%r vacancies=%d" % (tol, d0, m[0], s[0], len(vac)))
            else:
                if Z[best] == num:
                    out.cls("match=match")
                    if m[0] is None or int(m[0]) != int(best) or s[0] is not None or len(vac) != 0:
                        out.fail("match-nearest", "expected match with atom %d at %.6g (tol %.6g), got match=%r subst=%r vacancies=%d" % (best, d0, tol, m[0], s[0], len(vac)))
                else:
                    out.cls("match=substitution")
                    if m[0] is not None or s[0] is None or int(s[0].index) != int(best) or len(vac) != 0:
                        out.fail("match-substitution", "expected substitution of atom %d, got match=%r subst=%r" % (best, m[0], getattr(s[0], "index", None)))
                    elif not (int(s[0].original_element) == num and int(s[0].substitutional_element) == int(Z[best])):
                        out.fail("match-substitution", "substitution carries wrong elements")
                if not np.array_equal(np.array(ci[0], float), f[best].astype(float)):
                    out.fail("match-offset", "cell offset %s reported, nearest image has offset %s" % (np.array(ci[0]).tolist(), f[best].tolist()))
            # ---- get_matches_simple (wraps the query itself): query shifted by whole lattice vectors ------
            sh = np.array(q["shift"], float)
            sh[~pbc] = 0
            qs = qp + sh @ cell
            # get_matches at the lattice-shifted query (possibly far outside the cell): IF it reports a vacancy, the reported
            # cell offset must be the cell that contains the position, floor(fractional coordinates)
            if sh.any():
                okv, resv = call(mg.get_matches, at, cl, qs[None, :].copy(), [num], tol)
                if okv and resv[0][0] is None and resv[1][0] is None and len(resv[2]) == 1:
                    want_off = np.floor(np.linalg.solve(cell.T, qs) + 1e-12 * np.sign(np.linalg.solve(cell.T, qs)))
                    fq = np.linalg.solve(cell.T, qs)
                    if np.abs(fq - np.rint(fq)).min() > 1e-6 and not np.array_equal(np.array(resv[3][0], float), np.floor(fq)):
                        out.fail("vacancy-offset", "vacancy at fractional position %s reported in cell %s, it lies in cell %s" % (np.round(fq, 4).tolist(), np.array(resv[3][0]).tolist(), np.floor(fq).tolist()))
            ok, res = call(mg.get_matches_simple, at, cl, qs[None, :].copy(), [num], tol)
            if not ok:
                return out.fail("returns-normally", "get_matches_simple: %r" % res, key="exc:" + exc_key(res))
            ms, ds = res
            if abs(d0 - tol) < M or tie:
                pass
            elif d0 > tol or Z[best] != num:
                if ms[0] is not None:
                    out.fail("simple-none", "expected no match (nearest %.6g, tol %.6g, species agree=%s), got %r" % (d0, tol, Z[best] == num, ms[0]))
            else:
                if ms[0] is None or int(ms[0]) != int(best):
                    out.fail("simple-nearest", "expected atom %d, got %r" % (best, ms[0]))
                elif np.abs(np.array(ds[0], float) - v[best]).max() > 1e-7 * scale:
                    out.fail("simple-displacement", "displacement %s, expected %s" % (np.array(ds[0]).tolist(), v[best].tolist()))
        # ---- get_neighbours_for_index(i) is the position query at the i-th entry of the extended system (the originals come first)
        for i in range(min(n, 2)):
            ok, ri = call(cl.get_neighbours_for_index, i)
            ok2, rp = call(cl.get_neighbours_for_position, float(pos[i][0]), float(pos[i][1]), float(pos[i][2]))
            if not ok or not ok2:
                out.fail("returns-normally", "get_neighbours_for_index: %r" % (ri if not ok else rp), key="exc-index:" + exc_key(ri if not ok else rp))
            elif sorted(zip(ri.indices_original, map(tuple, ri.factors))) != sorted(zip(rp.indices_original, map(tuple, rp.factors))) \
                    or not np.allclose(sorted(ri.distances), sorted(rp.distances), atol=atol, rtol=0):
                out.fail("query-by-index", "get_neighbours_for_index(%d) differs from the position query at that atom" % i)
        # ---- the same queries as ONE batched call (how every caller uses get_matches): results must not depend on
        #      what the other positions of the batch were --------------------------------------------------------
        if len(batch) >= 2:
            tolb = desc["queries"][0]["tolfrac"] * min(ext, cut)
            Q = np.array([b[0] for b in batch]); nums_b = [b[1] for b in batch]
            exp = []
            amb_any = False
            for qp, num in batch:
                v, f, dmin, gap = omic.mic(qp[None, :] - pos, cell, pbc)
                order = np.argsort(dmin); best = int(order[0]); d0 = dmin[best]
                if abs(d0 - tolb) < M or (len(order) > 1 and dmin[order[1]] - d0 < M) or gap[best] < M:
                    amb_any = True
                exp.append(("vacancy", None, None) if d0 > tolb else (("match" if Z[best] == num else "substitution"), best, f[best]))
            if not amb_any:
                out.cls("batch-checked")
                ok, res = call(mg.get_matches, at, cl, Q.copy(), list(nums_b), tolb)
                if not ok:
                    return out.fail("returns-normally", "get_matches(batch): %r" % res, key="exc-batch:" + exc_key(res))
                m, sb, vac, ci = res
                nvac = sum(1 for e in exp if e[0] == "vacancy")
                if len(m) != len(batch) or len(sb) != len(batch) or len(ci) != len(batch):
                    out.fail("batch-shape", "get_matches returned lists of wrong length for a batch of %d" % len(batch))
                else:
                    for k, e in enumerate(exp):
                        got = "match" if m[k] is not None else "substitution" if sb[k] is not None else "vacancy"
                        idx = m[k] if m[k] is not None else (getattr(sb[k], "index", None) if sb[k] is not None else None)
                        if got != e[0] or (e[1] is not None and int(idx) != int(e[1])):
                            out.fail("batch-matching", "batched get_matches: query %d of %s expected %s (atom %s), got %s (atom %s)" % (k, [x[0] for x in exp], e[0], e[1], got, idx), key="batch-matching")
                            break
                        if e[0] != "vacancy" and not np.array_equal(np.array(ci[k], float), np.asarray(e[2], float)):
                            out.fail("batch-offset", "batched get_matches: query %d cell offset %s, expected %s" % (k, np.array(ci[k]).tolist(), np.asarray(e[2]).tolist()), key="batch-offset")
                            break
                    if len(vac) != nvac:
                        out.fail("batch-vacancies", "batched get_matches reports %d vacancies, expected %d (%s)" % (len(vac), nvac, [x[0] for x in exp]), key="batch-vacancies")
                ok, res = call(mg.get_matches_simple, at, cl, Q.copy(), list(nums_b), tolb)
                if ok:
                    ms, ds = res
                    for k, e in enumerate(exp):
                        want = e[1] if e[0] == "match" else None
                        if (ms[k] is None) != (want is None) or (want is not None and int(ms[k]) != int(want)):
                            out.fail("batch-simple", "batched get_matches_simple: query %d expected %s, got %s" % (k, want, ms[k]), key="batch-simple")
                            break
    if out.nontrivial:
        out.cls("nontrivial")
    return out


def extra_engine(tier, seed, work):
    """coverage-guided tier: libFuzzer + ASan/UBSan on the current C++ with the oracle inside the target (DESIGN 2.6)"""
    from vlib import fuzz
    return fuzz.campaign(ID, seed, 8 if tier == "quick" else 300, 16, work)
