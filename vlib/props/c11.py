"""C11 - 2D materials get a vacuum-, orientation- and labelling-independent normal form."""
import numpy as np
from hypothesis import strategies as st

from vlib.case import Outcome, call, exc_key
from vlib.gen import layers as gl

ID = "C11"
LEVEL = "exploration"
RULE = ("case = (layer from orbits of a layer-compatible symmorphic space group, 1-3 orbits, thickness <= 3 A, or graphene/h-BN/MX2) x variant (vacuum factor "
        "0.6-2.0, axis relabelling, in-plane supercell, rotation+translation, flip, permutation, min_2d_thickness in {0.5,1,3}); the base layer and its variant "
        "are both analysed; distinct = SHA-1 of the descriptor; non-trivial = the variant's non-periodic axis is not c, or it is rotated/flipped out of the xy-plane")
ASSUMPTIONS = [
    "layer-compatible groups are computed from spglib's database (P/C lattice, symmorphic, no operation mixing c with a,b): the computed list has 38 members and is recorded in coverage.layer_groups",
    "layers with atoms closer than 0.7 A or with a symmetry that is not stable between symprec 1e-4 and 1e-2 are discarded and counted",
    "thickness compared with tolerance 5e-3 A (idealisation moves atoms by up to the symmetry tolerance); extent measured on the input along its layer normal",
]


def plan(tier):
    return {"n_random": 6000 if tier == "quick" else 40000, "time_s": 500 if tier == "quick" else 1750}


def strategy(tier):
    return st.fixed_dictionaries({"layer": gl.layer_descs(), "variant": gl.variants()})


def shard_extra():
    return {"layer_groups": list(gl.layer_groups())}


def merge_extra(parts, tier):
    return {"layer_groups": parts[0]["layer_groups"], "n_layer_groups": len(parts[0]["layer_groups"])}


def describe(at, m2d):
    from matid.symmetry import SymmetryAnalyzer
    an = SymmetryAnalyzer(at, symmetry_tol=1e-3, min_2d_thickness=m2d)
    conv = an.get_conventional_system()
    ws = sorted((w.wyckoff_letter, w.element, len(w.indices)) for w in an.get_wyckoff_sets_conventional(False))
    cell = np.asarray(conv.get_cell(), float)
    l = np.linalg.norm(cell, axis=1)
    gamma = np.degrees(np.arccos(np.clip(cell[0] @ cell[1] / (l[0] * l[1]), -1, 1)))
    return {"material_id": an.get_material_id(), "space_group": int(an.get_space_group_number()), "wyckoff_multiset": ws,
            "inplane": (float(l[0]), float(l[1]), float(gamma))}, conv


def direct_checks(out, at, conv, m2d, tag):
    pbc_in = np.asarray(at.get_pbc())
    cell_in = np.asarray(at.get_cell(), float)
    per = [i for i in range(3) if pbc_in[i]]
    nrm = np.cross(cell_in[per[0]], cell_in[per[1]])
    nrm /= np.linalg.norm(nrm)
    ext = float(np.ptp(at.get_positions() @ nrm))
    cc = np.asarray(conv.get_cell(), float)
    if list(np.asarray(conv.get_pbc())) != [True, True, False]:
        out.fail("periodic-in-ab-only", "%s: pbc of the conventional system is %s" % (tag, np.asarray(conv.get_pbc()).tolist()), key="pbc")
        return
    lc = np.linalg.norm(cc[2])
    if abs(cc[2] @ cc[0]) > 1e-6 * lc * np.linalg.norm(cc[0]) or abs(cc[2] @ cc[1]) > 1e-6 * lc * np.linalg.norm(cc[1]):
        out.fail("nonperiodic-vector-last", "%s: the last cell vector is not perpendicular to the periodic plane" % tag, key="c-not-normal")
    sp = np.linalg.solve(cc.T, conv.get_positions().T).T
    if sp.min() < -1e-7 or sp.max() > 1 + 1e-7:
        out.fail("atoms-inside-cell", "%s: scaled positions span [%.9g, %.9g]" % (tag, sp.min(), sp.max()), key="inside")
    want = max(ext, m2d)
    if abs(lc - want) > 5e-3:
        out.fail("thickness", "%s: |c| = %.6g, expected max(extent %.6g, min_2d_thickness %.6g)" % (tag, lc, ext, m2d), key="thickness")
    if len(conv) < 1:
        out.fail("atoms-inside-cell", "%s: empty conventional system" % tag, key="empty")


def run_case(desc):
    from ase import Atoms
    from matid.symmetry import SymmetryAnalyzer
    out = Outcome()
    base = gl.conditioned_layer(desc["layer"], out)
    if base is None:
        return out
    v = desc["variant"]
    m2d = float(v["m2d"])
    var = gl.apply_variant(base, v)
    out.cls(*gl.variant_labels(v), "m2d=%g" % m2d, "named" if "named" in desc["layer"] else "sg=%d" % desc["layer"]["sg"])
    ok, r0 = call(describe, base, m2d)
    if not ok:
        return out.fail("returns-normally", "base layer: %r" % r0, key="exc:" + exc_key(r0))
    ok, r1 = call(describe, var, m2d)
    if not ok:
        return out.fail("returns-normally", "variant %s: %r" % (gl.variant_labels(v), r1), key="exc-variant:" + exc_key(r1))
    (d0, conv0), (d1, conv1) = r0, r1
    direct_checks(out, base, conv0, m2d, "base")
    direct_checks(out, var, conv1, m2d, "variant")
    what = " between the base layer and its variant %s" % gl.variant_labels(v)
    for k in ("material_id", "space_group", "wyckoff_multiset"):
        if d0[k] != d1[k]:
            out.fail("2d-normal-form:" + k, "%s differs%s: %r vs %r" % (k, what, d0[k], d1[k]))
    a0, a1 = np.array(d0["inplane"]), np.array(d1["inplane"])
    if np.abs(a0 - a1).max() > 1e-4 * max(1.0, a0.max()):
        out.fail("2d-normal-form:inplane-lattice", "in-plane lattice parameters (a, b, gamma) differ%s: %s vs %s" % (what, np.round(a0, 5).tolist(), np.round(a1, 5).tolist()))
    # the same cell treated as a 3D crystal must get another id
    at3 = Atoms(numbers=base.get_atomic_numbers(), positions=base.get_positions(), cell=base.get_cell(), pbc=True)
    ok, id3 = call(lambda: SymmetryAnalyzer(at3, symmetry_tol=1e-3).get_material_id())
    if ok and id3 == d0["material_id"]:
        out.fail("id-differs-from-3d", "2D and 3D treatment of the same cell give the same material id %s" % id3)
    pbc_v = np.asarray(var.get_pbc())
    out.nontrivial = bool(pbc_v[2] or v.get("quat") is not None or v.get("flip"))
    return out
