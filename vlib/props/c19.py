"""C19 - radii presets and custom radii are honoured uniformly."""
import numpy as np
from hypothesis import strategies as st

from vlib.case import Outcome, call, exc_key
from vlib.gen import cells as gc

ID = "C19"
LEVEL = "exploration"
PRESETS = ["covalent", "vdw", "vdw_covalent"]
NO_VDW = [61, 84, 85, 86, 87, 88, 100, 101, 102, 103]
RULE = ("enumerated part: every (Z in 1..103) x (covalent, vdw, vdw_covalent) table entry once, and every atom count 1..400 (thorough 1..1200) for the custom-array clause; random part: 2-14 atoms in a cell, "
        "elements drawn from a pool that mixes elements with and without a tabulated vdW radius, preset, threshold; "
        "non-trivial = the preset is vdw_covalent and an element without a vdW radius is involved")
ASSUMPTIONS = [
    "reference tables: ase.data.covalent_radii (Cordero 2008) and ase.data.vdw_alvarez.vdw_radii (Alvarez 2013), the sources the docstrings cite",
    "differential clauses compare a preset with the reference numbers passed as a per-atom array (how every consumer indexes a custom array)",
    "the 'vdw' preset is only exercised in the differential part on elements that have a vdW radius (NaN radii have no defined behaviour)",
]


def EXHAUSTIVE(tier):
    return True


def plan(tier):
    return {"n_random": 320 if tier == "quick" else 5000, "item_draws": 1, "time_s": 300 if tier == "quick" else 1700}


def items(tier):
    # every table entry, and every atom count 1..N for the "custom per-atom array is used unchanged" clause (a custom array is
    # recognised by nothing but its shape, so every length is its own case - lengths equal to a table's length included)
    return ([{"Z": z, "preset": p} for z in range(1, 104) for p in PRESETS]
            + [{"n": n} for n in range(1, 401 if tier == "quick" else 1201)])


@st.composite
def _length_case(draw, n):
    return {"kind": "length", "n": n, "seed": draw(st.integers(0, 2 ** 32 - 1)), "preset": draw(st.sampled_from(["covalent", "vdw_covalent"])),
            "thr": draw(gc.ffloat(0.3, 1.5)), "a": draw(gc.ffloat(2.2, 3.4))}


def item_strategy(item, tier):
    if "n" in item:
        return _length_case(item["n"])
    return st.just({"kind": "table", "Z": item["Z"], "preset": item["preset"]})


def _run_length(desc, out):
    """n atoms of mixed elements on a sheet (one atom lifted off it): custom array of length n unchanged; for the lengths next to a
    table's length also the consumers (get_dimensionality, SBC) with a preset vs the same numbers as an array."""
    import matid
    import matid.geometry as mg
    from ase import Atoms
    from ase.data import covalent_radii
    from ase.data.vdw_alvarez import vdw_radii
    n = desc["n"]
    r = np.random.RandomState(desc["seed"])
    Z = r.choice([8, 29, 55, 61, 84, 1, 14], size=n)
    custom = r.uniform(0.2, 2.5, size=n)
    out.cls("length")
    special = sorted({len(covalent_radii), len(vdw_radii), 103, 104})
    near = any(abs(n - k) <= 1 for k in special)
    out.nontrivial = bool(near)
    for arr_in, what in ((custom, "float array"), (list(custom), "list")):
        ok, got = call(mg.get_radii, arr_in.copy() if hasattr(arr_in, "copy") and not isinstance(arr_in, list) else list(arr_in), Z)
        if not ok:
            out.fail("returns-normally", "get_radii(custom %s of length %d): %r" % (what, n, got), key="exc:custom-length:" + exc_key(got))
        elif not _same(got, custom):
            out.fail("custom-unchanged", "custom per-atom radii (%s of length %d) were altered: %d of %d values differ" % (
                what, n, int((np.asarray(got, float) != custom).sum()) if np.shape(got) == custom.shape else -1, n), key="custom-unchanged:length")
    if not (near or n <= 3 or n % 40 == 0):
        return out
    out.cls("length:consumers")
    nx = int(np.ceil(np.sqrt(n)))
    a = float(desc["a"])
    pos = np.array([[(i % nx) * a, (i // nx) * a, 5.0] for i in range(n)], float)
    pos[n // 2, 2] += 1.2
    at = Atoms(numbers=Z, positions=pos, cell=[nx * a, (int(np.ceil(n / nx))) * a, 12.0], pbc=[True, True, False])
    preset, thr = desc["preset"], float(desc["thr"])
    arr = reference(preset, Z)
    ok1, d1 = call(mg.get_dimensionality, at.copy(), thr, radii=preset)
    ok2, d2 = call(mg.get_dimensionality, at.copy(), thr, radii=arr.copy())
    if ok1 != ok2 or (ok1 and d1 != d2):
        out.fail("dimensionality-preset-vs-array", "%d atoms: preset %r -> %r, same numbers as array -> %r" % (n, preset, d1, d2), key="dimensionality-preset-vs-array:" + preset)

    def clusters(rad):
        cl = matid.SBC().get_clusters(at.copy(), radii=rad, bond_threshold=min(thr, 1.0))
        return sorted((sorted(int(i) for i in c.indices), c.get_dimensionality()) for c in cl)
    ok1, c1 = call(clusters, preset)
    ok2, c2 = call(clusters, arr.copy())
    if ok1 != ok2 or (ok1 and c1 != c2):
        out.fail("clustering-preset-vs-array", "%d atoms: preset %r -> %s, array -> %s" % (n, preset, str(c1)[:120], str(c2)[:120]), key="clustering-preset-vs-array:" + preset)
    return out


POOL_VDW = [1, 6, 8, 14, 26, 29, 47, 79, 82]


@st.composite
def _cases(draw):
    preset = draw(st.sampled_from(["vdw_covalent", "vdw_covalent", "covalent", "vdw"]))
    pool = POOL_VDW + ([] if preset == "vdw" else NO_VDW)
    n = draw(st.integers(2, 14))
    Z = [draw(st.sampled_from(pool)) for _ in range(n)]
    if preset == "vdw_covalent" and draw(st.integers(0, 3)) > 0:
        Z[0] = draw(st.sampled_from(NO_VDW))
    cell = draw(gc.cell_descs(lo=3.0, hi=12.0, kinds=("orth", "tric"), allow_lefthanded=False))
    fl = st.floats(0.0, 1.0, exclude_max=True, allow_nan=False, width=64)
    frac = [[draw(fl) for _ in range(3)] for _ in range(n)]
    d = {"kind": "structure", "preset": preset, "Z": Z, "cell": cell, "pbc": draw(gc.pbcs), "frac": frac,
         "thr": draw(gc.ffloat(0.3, 2.0)), "custom": [draw(gc.ffloat(0.2, 2.5)) for _ in range(n)]}
    if draw(st.integers(0, 2)) == 0:
        # a crystalline structure (defective crystal, slab, stack ...) in which SBC actually finds clusters: for the clustering clauses
        from vlib.gen import messy
        d["messy"] = draw(messy.structures(max_atoms=60, allow_zero_periodic=False))
    return d


def strategy(tier):
    return _cases()


def reference(preset, Z):
    from ase.data import covalent_radii
    from ase.data.vdw_alvarez import vdw_radii
    Z = np.asarray(Z, int)
    cov = covalent_radii[Z]
    vdw = vdw_radii[Z]
    if preset == "covalent":
        return cov
    if preset == "vdw":
        return vdw
    return np.where(np.isnan(vdw), cov, vdw)


def _same(a, b):
    a = np.asarray(a, float); b = np.asarray(b, float)
    return a.shape == b.shape and np.array_equal(np.isnan(a), np.isnan(b)) and np.array_equal(a[~np.isnan(a)], b[~np.isnan(b)])


def run_case(desc):
    import matid.geometry as mg
    out = Outcome()
    if desc["kind"] == "table":
        Z, preset = desc["Z"], desc["preset"]
        out.cls("table:" + preset)
        nums = np.array([Z, Z, 1])
        ok, r = call(mg.get_radii, preset, nums)
        if not ok:
            return out.fail("returns-normally", "get_radii(%s, Z=%d): %r" % (preset, Z, r), key="exc:%s:%s" % (preset, exc_key(r)))
        ref = reference(preset, nums)
        if not _same(r, ref):
            out.fail("preset-table", "get_radii(%r) for Z=%d gives %r, documented table gives %r" % (preset, Z, np.asarray(r)[0], ref[0]), key="preset-table:%s:%d" % (preset, Z))
        # the caller owns what it gets: scaling the returned array in place (a common way to build custom radii) must not change
        # what the preset resolves to afterwards
        try:
            rr = np.asarray(r)
            if rr.flags.writeable:
                rr *= 1.25
        except Exception:
            pass
        ok2, r2 = call(mg.get_radii, preset, nums)
        if ok2 and not _same(r2, ref):
            out.fail("preset-table-after-caller-edit", "get_radii(%r) for Z=%d gives %r after the caller scaled the previously returned array in place; documented table gives %r"
                     % (preset, Z, np.asarray(r2)[0], ref[0]), key="preset-table-after-caller-edit:%s" % preset)
        r = r2 if ok2 else r
        if preset == "vdw_covalent":
            v = float(np.asarray(r)[0])
            if not (np.isfinite(v) and v > 0):
                out.fail("vdw_covalent-finite", "vdw_covalent radius of Z=%d is %r although a covalent radius exists" % (Z, v), key="vdw_covalent-finite:%d" % Z)
        out.nontrivial = bool(preset == "vdw_covalent" and Z in NO_VDW)
        return out

    if desc["kind"] == "length":
        return _run_length(desc, out)
    from ase import Atoms
    import matid
    preset = desc["preset"]
    Z = np.array(desc["Z"], int)
    cell = gc.build_cell(desc["cell"])
    pbc = np.array(desc["pbc"], bool)
    pos = np.array(desc["frac"], float) @ cell
    at = Atoms(numbers=Z, positions=pos, cell=cell, pbc=pbc)
    if desc.get("messy") is not None:
        from vlib.gen import messy
        at = messy.build(desc["messy"])
        if messy.too_skewed(at):
            out.discard = "resource-bound:strongly-sheared-cell"
            return out
        Z = at.get_atomic_numbers()
        pbc = np.asarray(at.get_pbc())
        if np.isnan(reference(preset, Z)).any():
            out.discard = "element-without-radius"
            return out
        desc = dict(desc, custom=list(np.linspace(0.4, 2.0, len(Z))))
        out.cls("crystalline")
    thr = float(desc["thr"])
    arr = reference(preset, Z)
    has_novdw = bool(set(Z.tolist()) & set(NO_VDW))
    out.cls("struct:" + preset, "novdw" if has_novdw else "allvdw", "npbc=%d" % pbc.sum())
    out.nontrivial = bool(preset == "vdw_covalent" and has_novdw)
    # custom array is used unchanged
    custom = np.array(desc["custom"], float)
    ok, r = call(mg.get_radii, custom.copy(), Z)
    if not ok:
        out.fail("returns-normally", "get_radii(custom): %r" % r, key="exc:custom:" + exc_key(r))
    elif not _same(r, custom):
        out.fail("custom-unchanged", "custom per-atom radii were altered")
    ok, r = call(mg.get_radii, preset, Z)
    if ok and not _same(r, arr):
        out.fail("preset-table", "get_radii(%r, %s) = %s, table says %s" % (preset, Z.tolist(), np.asarray(r).tolist(), arr.tolist()), key="preset-table-struct:" + preset)
        return out   # do not feed wrong (possibly NaN) radii into the heavy consumers: the defect is already recorded
    # dimensionality: preset vs the same numbers as an array
    ok1, d1 = call(mg.get_dimensionality, at.copy(), thr, radii=preset)
    ok2, d2 = call(mg.get_dimensionality, at.copy(), thr, radii=arr.copy())
    if ok1 != ok2 or (ok1 and d1 != d2):
        out.fail("dimensionality-preset-vs-array", "preset %r -> %r, same numbers as array -> %r" % (preset, d1, d2), key="dimensionality-preset-vs-array:" + preset)
    # clustering: preset vs array
    def clusters(rad):
        cl = matid.SBC().get_clusters(at.copy(), radii=rad, bond_threshold=min(thr, 1.0))
        return sorted((sorted(int(i) for i in c.indices), c.get_dimensionality()) for c in cl)
    ok1, c1 = call(clusters, preset)
    ok2, c2 = call(clusters, arr.copy())
    if ok1 != ok2 or (ok1 and c1 != c2):
        out.fail("clustering-preset-vs-array", "preset %r -> %r, array -> %r" % (preset, c1, c2), key="clustering-preset-vs-array:" + preset)
    # history: ONE SBC object first clusters the structure with another preset, then with this one - the second answer must be
    # the one a fresh object gives (whatever the object cached for the first radii must not leak)
    other = "covalent" if preset != "covalent" else "vdw_covalent"

    def reused():
        sb = matid.SBC()
        sb.get_clusters(at.copy(), radii=other, bond_threshold=min(thr, 1.0))
        cl = sb.get_clusters(at.copy(), radii=preset, bond_threshold=min(thr, 1.0))
        return sorted((sorted(int(i) for i in c.indices), c.get_dimensionality()) for c in cl)

    def fresh():
        cl = matid.SBC().get_clusters(at.copy(), radii=preset, bond_threshold=min(thr, 1.0))
        return sorted((sorted(int(i) for i in c.indices), c.get_dimensionality()) for c in cl)
    ok1, a1 = call(reused)
    ok2, a2 = call(fresh)
    if ok1 != ok2 or (ok1 and a1 != a2):
        out.fail("preset-honoured-on-reused-object", "SBC object that first clustered with %r then with %r gives %r, a fresh object gives %r" % (other, preset, str(a1)[:150], str(a2)[:150]))
    if out.nontrivial:
        out.cls("nontrivial")
    return out
