"""CLI:  python -m vlib.run <ID> --tier quick|thorough        (registered quick/thorough commands)
         python -m vlib.run <ID> --replay <file>               (re-run one saved descriptor, no Hypothesis)

Exit 0: property held on everything explored (KNOWN-FINDING lines may be printed)
Exit 1: a line ``VIOLATION property=<id> replay=<path>`` was printed
Exit 2: harness error (never reported as a violation)
"""
import argparse
import fnmatch
import glob
import importlib
import json
import os
import shutil
import signal
import subprocess
import sys
import time

from vlib import bootstrap
from vlib.case import dhash, jsonable

VERIF = bootstrap.VERIF
NSHARDS = int(os.environ.get("VERIF_SHARDS", "16"))


def load_known(pid):
    path = os.path.join(VERIF, "known_findings.json")
    if not os.path.exists(path):
        return []
    with open(path) as f:
        data = json.load(f)
    return [e for e in data.get("findings", []) if e.get("property") == pid and e.get("status") == "known"]


def match_known(known, key):
    for e in known:
        if fnmatch.fnmatchcase(key, e["key"]):
            return e
    return None


def write_replay(pid, key, clause, desc, msg, seed, tier, extra=None):
    d = os.path.join(VERIF, "replays", pid)
    os.makedirs(d, exist_ok=True)
    path = os.path.join(d, "%s_%s.json" % (clause.replace("/", "_").replace(" ", "_")[:40], dhash({"k": key, "d": desc})))
    with open(path, "w") as f:
        json.dump(jsonable({"property": pid, "clause": clause, "key": key, "descriptor": desc, "observed": msg,
                            "extra": extra, "seed": seed, "tier": tier}), f, indent=1)
    return path


def replay(pid, path):
    bootstrap.setup()
    mod = importlib.import_module("vlib.props." + pid.lower())
    try:
        with open(path) as f:
            rec = json.load(f)
    except (ValueError, UnicodeDecodeError):
        from vlib import fuzz
        ok, msg = fuzz.replay(path)      # a raw libFuzzer input
        if ok:
            print("replay ok: fuzz target runs clean on %s" % path)
            return 0
        print("FAIL fuzz input: %s" % msg)
        print("VIOLATION property=%s replay=%s" % (pid, os.path.abspath(path)))
        return 1
    if isinstance(rec, dict) and "statemachine" in rec:
        from vlib import stateful_sym
        msg = stateful_sym.execute(rec["statemachine"])
        if msg:
            print("FAIL state machine history: %s" % msg)
            print("VIOLATION property=%s replay=%s" % (pid, os.path.abspath(path)))
            return 1
        print("replay ok: the logged history gives the same answers as fresh analysers")
        return 0
    if isinstance(rec, dict) and "statemachine_obj" in rec:
        from vlib import stateful_sbc
        msg = stateful_sbc.execute(rec["statemachine_obj"])
        if msg:
            print("FAIL state machine history: %s" % msg)
            print("VIOLATION property=%s replay=%s" % (pid, os.path.abspath(path)))
            return 1
        print("replay ok: the logged history gives the same answers as fresh objects")
        return 0
    desc = rec["descriptor"] if "descriptor" in rec else rec
    out = mod.run_case(desc)
    known = load_known(pid)
    if out.discard:
        print("case discarded by the check: %s" % out.discard)
        return 0
    bad = 0
    for fl in out.failures:
        k = match_known(known, fl["key"])
        if k:
            print("KNOWN-FINDING: property=%s %s" % (pid, k["what"]))
        else:
            bad += 1
            print("FAIL clause=%s key=%s: %s" % (fl["clause"], fl["key"], fl["msg"]))
    if bad:
        print("VIOLATION property=%s replay=%s" % (pid, os.path.abspath(path)))
        return 1
    print("replay ok: property %s holds on %s (classes=%s)" % (pid, path, out.classes))
    return 0


def spawn(pid, tier, seed, shard, nshards, out, mode="collect", target=None, item=None, budget=200):
    cmd = [sys.executable, "-m", "vlib.engine", "--prop", pid, "--tier", tier, "--seed", str(seed), "--shard", str(shard),
           "--nshards", str(nshards), "--out", out, "--mode", mode, "--budget", str(budget)]
    if target is not None:
        cmd += ["--target", target]
    if item is not None:
        cmd += ["--item", str(item)]
    env = dict(os.environ)
    env.update(PYTHONHASHSEED="0", OMP_NUM_THREADS="1", OPENBLAS_NUM_THREADS="1", MKL_NUM_THREADS="1", PYTHONWARNINGS="ignore")
    env["PYTHONPATH"] = VERIF + (":" + env["PYTHONPATH"] if env.get("PYTHONPATH") else "")
    log = open(out + ".log", "w")
    return subprocess.Popen(cmd, cwd=VERIF, env=env, stdout=log, stderr=subprocess.STDOUT)


def main(argv=None):
    ap = argparse.ArgumentParser()
    ap.add_argument("prop")
    ap.add_argument("--tier", default=os.environ.get("VERIF_TIER", "quick"), choices=["quick", "thorough"])
    ap.add_argument("--replay")
    a = ap.parse_args(argv)
    pid = a.prop.upper()
    if a.replay:
        return replay(pid, a.replay)
    seed = int(os.environ.get("VERIF_SEED", "1") or 1)
    t0 = time.time()
    try:
        bootstrap.setup()
        mod = importlib.import_module("vlib.props." + pid.lower())
        if hasattr(mod, "selfcheck"):
            mod.selfcheck()
    except bootstrap.HarnessError as e:
        print("HARNESS-ERROR: %s" % e)
        return 2
    plan = mod.plan(a.tier)
    known = load_known(pid)
    work = os.path.join(VERIF, ".work", "%s_%s_%d" % (pid, a.tier, os.getpid()))
    shutil.rmtree(work, ignore_errors=True)
    os.makedirs(work)

    buckets = {}          # key -> {clause, count, examples}
    reproduced_known = {}  # entry key -> count

    def add_failure(key, clause, example, count=1):
        b = buckets.setdefault(key, {"key": key, "clause": clause, "count": 0, "examples": []})
        b["count"] += count
        if len(b["examples"]) < 3:
            b["examples"].append(example)

    # ---- 1. regress tier: committed shrunk failures, run first, no Hypothesis -------------------------
    n_regress = 0
    for path in sorted(glob.glob(os.path.join(VERIF, "regress", pid, "*.json"))):
        with open(path) as f:
            rec = json.load(f)
        desc = rec["descriptor"] if "descriptor" in rec else rec
        out = mod.run_case(desc)
        n_regress += 1
        for fl in out.failures:
            add_failure(fl["key"], fl["clause"], {"descriptor": desc, "msg": fl["msg"], "extra": fl.get("extra"), "regress": os.path.basename(path)})

    # ---- 2. generated cases on 16 workers ---------------------------------------------------------------
    procs = []
    for k in range(NSHARDS):
        procs.append((k, spawn(pid, a.tier, seed, k, NSHARDS, os.path.join(work, "s%02d" % k))))
    merged = {"n_run": 0, "n_generated": 0, "n_skipped_budget": 0, "discards": {}, "classes": {}, "samples": [], "t_case": 0.0, "n_distinct": 0}
    nontrivial = set()
    prop_extra = []
    harness_errors = []
    cpp_mode = bootstrap.CPP_MODE
    for k, p in procs:
        rc = p.wait()
        base = os.path.join(work, "s%02d" % k)
        if os.path.exists(base + ".json"):
            with open(base + ".json") as f:
                res = json.load(f)
        else:
            res = None
        if res is None:
            # the worker died without reporting: a crash inside the code under test (e.g. SIGSEGV in the C++)
            cur = None
            try:
                with open(base + ".current") as f:
                    cur = json.load(f)
            except Exception:
                pass
            if rc < 0 and cur is not None:
                sig = signal.Signals(-rc).name
                add_failure("crash:" + sig, "returns-normally", {"descriptor": cur, "msg": "worker killed by %s while running this case" % sig})
            else:
                with open(base + ".log") as f:
                    harness_errors.append("shard %d exited rc=%s without result:\n%s" % (k, rc, f.read()[-3000:]))
            continue
        if not res.get("ok"):
            harness_errors.append("shard %d: %s" % (k, res.get("error")))
            continue
        for key in ("n_run", "n_generated", "n_skipped_budget", "t_case"):
            merged[key] += res[key]
        for key in ("discards", "classes"):
            for kk, v in res[key].items():
                merged[key][kk] = merged[key].get(kk, 0) + v
        nontrivial.update(res["nontrivial"])
        merged["n_distinct"] += res["n_distinct"]
        if len(merged["samples"]) < 5:
            merged["samples"].extend(res["samples"][:2])
        if res.get("prop_extra") is not None:
            prop_extra.append(res["prop_extra"])
        for b in res["failures"]:
            for ex in b["examples"]:
                add_failure(b["key"], b["clause"], ex, 0)
            buckets[b["key"]]["count"] += b["count"]
    if harness_errors:
        print("HARNESS-ERROR: %d worker(s) failed" % len(harness_errors))
        print(harness_errors[0])
        return 2

    # ---- 3. classify failure buckets: known findings vs violations -------------------------------------
    unknown = []
    excluded_known = {}
    for key, b in sorted(buckets.items()):
        e = match_known(known, key)
        if e:
            excluded_known[e["key"]] = excluded_known.get(e["key"], 0) + b["count"]
            reproduced_known[e["key"]] = e
        else:
            unknown.append(b)
    for k, e in sorted(reproduced_known.items()):
        print("KNOWN-FINDING: property=%s %s" % (pid, e["what"]))

    # ---- 4. shrink unknown buckets (bounded), write replays ----------------------------------------------
    shrink_budget = int(plan.get("shrink_evals", 150 if a.tier == "quick" else 1500))
    max_shrunk = 4 if a.tier == "quick" else 10
    jobs = []
    for i, b in enumerate(unknown):
        ex = b["examples"][0]
        b["replay_desc"] = ex["descriptor"]
        b["replay_msg"] = ex["msg"]
        if i < max_shrunk and shrink_budget > 0 and "regress" not in ex and ex.get("shard") is not None and not b["key"].startswith("crash:"):
            out = os.path.join(work, "shrink%02d" % i)
            jobs.append((b, out, spawn(pid, a.tier, seed, ex["shard"], NSHARDS, out, mode="shrink", target=b["key"], item=ex.get("item"), budget=shrink_budget)))
    for b, out, p in jobs:
        try:
            p.wait(timeout=float(plan.get("shrink_time_s", 240 if a.tier == "quick" else 900)))
        except subprocess.TimeoutExpired:
            p.kill()
            continue
        if os.path.exists(out + ".json"):
            with open(out + ".json") as f:
                st = json.load(f)
            if st.get("ok") and st.get("best") is not None:
                b["replay_desc"] = st["best"]
                b["replay_msg"] = (st.get("best_msg") or {}).get("msg", b["replay_msg"])
                b["shrunk"] = True
    violations = []
    for b in unknown:
        path = write_replay(pid, b["key"], b["clause"], b["replay_desc"], b["replay_msg"], seed, a.tier,
                            extra={"count": b["count"], "shrunk": bool(b.get("shrunk"))})
        violations.append((b, path))

    # ---- 4b. additional engines of the property (e.g. the libFuzzer tier of C10 / C16) -----------------------
    extra_cov = {}
    if hasattr(mod, "extra_engine"):
        xf, extra_cov = mod.extra_engine(a.tier, seed, work)
        for f in xf:
            e = match_known(known, f["key"])
            if e:
                print("KNOWN-FINDING: property=%s %s" % (pid, e["what"]))
                continue
            b = {"key": f["key"], "clause": f["clause"], "count": 1, "replay_msg": f["msg"], "examples": []}
            unknown.append(b)
            violations.append((b, f["path"]))

    # ---- 5. evidence ---------------------------------------------------------------------------------------
    wall = time.time() - t0
    cov = {
        "evaluations": int(merged["n_run"] + n_regress),
        "distinct_nontrivial": len(nontrivial),
        "rule": getattr(mod, "RULE", ""),
        "samples": jsonable(merged["samples"][:5]),
        "classes": dict(sorted(merged["classes"].items())),
        "distinct_cases": merged["n_distinct"],
        "generated": merged["n_generated"],
        "discarded": merged["discards"],
        "skipped_time_budget": merged["n_skipped_budget"],
        "budget_exhausted": merged["n_skipped_budget"] > 0,
        "regress_replayed": n_regress,
        "excluded_known": excluded_known,
        "failure_buckets": [{"key": b["key"], "clause": b["clause"], "count": b["count"]} for b in unknown],
        "shards": NSHARDS,
        "cpp": cpp_mode,
        "oracle_cpu_s": round(merged["t_case"], 1),
    }
    if hasattr(mod, "EXHAUSTIVE") and mod.EXHAUSTIVE:
        cov["exhaustive"] = bool(mod.EXHAUSTIVE if not callable(mod.EXHAUSTIVE) else mod.EXHAUSTIVE(a.tier))
    if prop_extra and hasattr(mod, "merge_extra"):
        cov.update(jsonable(mod.merge_extra(prop_extra, a.tier)))
    cov.update(jsonable(extra_cov))
    ev = {"property_id": pid, "tier": a.tier, "seed": seed, "level": getattr(mod, "LEVEL", "exploration"), "coverage": cov,
          "assumptions": list(getattr(mod, "ASSUMPTIONS", [])), "wall_s": round(wall, 2), "violations": len(violations)}
    from vlib.evidence import write_evidence
    n_crash = sum(b["count"] for b in unknown if b["key"].startswith("crash:"))
    cov["evaluations"] += n_crash
    cov["crashed_cases"] = n_crash
    write_evidence(pid, ev, strict=not violations)

    for b, path in violations:
        print("FAIL clause=%s key=%s count=%d: %s" % (b["clause"], b["key"], b["count"], b["replay_msg"]))
        print("VIOLATION property=%s replay=%s" % (pid, path))
    print("%s %s seed=%d: %d cases run (%d generated, %d discarded), %d distinct non-trivial, %d known-finding bucket(s), %d violation(s), %.1fs, cpp=%s"
          % (pid, a.tier, seed, cov["evaluations"], merged["n_generated"], sum(merged["discards"].values()), len(nontrivial), len(reproduced_known), len(violations), wall, cpp_mode))
    if not os.environ.get("VERIF_KEEP_WORK"):
        shutil.rmtree(work, ignore_errors=True)
    return 1 if violations else 0


if __name__ == "__main__":
    try:
        rc = main()
    except bootstrap.HarnessError as e:
        print("HARNESS-ERROR: %s" % e)
        rc = 2
    except Exception:
        import traceback
        traceback.print_exc()
        print("HARNESS-ERROR: unexpected exception in the runner")
        rc = 2
    sys.exit(rc)
