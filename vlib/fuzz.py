"""Coverage-guided tier for C10 / C16: libFuzzer + ASan + UBSan over the repository's current C++ (cppshim/fuzz_target.cpp).

The semantic oracles live inside the target (brute-force image enumeration); this module builds the binary for the
current sources, runs a bounded campaign seeded from VERIF_SEED and the committed corpus, and turns saved failing inputs
into failure records.  A campaign is only approximately reproducible (libFuzzer); the saved input is the reproducible unit.
"""
import glob
import os
import re
import shutil
import subprocess

from vlib import bootstrap

SHIM = os.path.join(bootstrap.VERIF, "cppshim")


def build():
    _, h = bootstrap.cpp_state()
    out_dir = os.path.join(bootstrap.VERIF, ".build", h)
    exe = os.path.join(out_dir, "fuzz")
    src = os.path.join(SHIM, "fuzz_target.cpp")
    if os.path.exists(exe) and os.path.getmtime(exe) >= os.path.getmtime(src):
        return exe
    os.makedirs(out_dir, exist_ok=True)
    ext = os.path.join(bootstrap.REPO, "matid", "ext")
    tmp = exe + ".%d.tmp" % os.getpid()
    cmd = ["clang++-14", "-O1", "-g", "-std=c++14", "-fsanitize=fuzzer,address,undefined", "-fno-sanitize-recover=undefined",
           "-I", os.path.join(SHIM, "fake_pybind"), "-I", ext, src, os.path.join(ext, "geometry.cpp"), os.path.join(ext, "celllist.cpp"), "-o", tmp]
    r = subprocess.run(cmd, capture_output=True, text=True)
    if r.returncode != 0:
        raise bootstrap.HarnessError("fuzz target build failed:\n" + r.stderr[-3000:])
    os.replace(tmp, exe)
    return exe


def replay(path):
    """Run the target on one saved input.  Returns (ok, message)."""
    exe = build()
    r = subprocess.run([exe, path], capture_output=True, text=True, timeout=120)
    m = re.search(r"ORACLE (\S+) (\S+) (.*)", r.stderr)
    if m:
        return False, "%s %s: %s" % (m.group(1), m.group(2), m.group(3))
    if r.returncode != 0:
        s = re.search(r"(ERROR: AddressSanitizer[^\n]*|runtime error:[^\n]*|SUMMARY:[^\n]*)", r.stderr)
        return False, "sanitizer/crash: %s" % (s.group(1) if s else "exit %d" % r.returncode)
    return True, "target ran clean"


def campaign(pid, seed, seconds, workers, work):
    """Returns (failures, coverage dict).  failures: list of dicts(key, clause, msg, path)."""
    exe = build()
    corpus = os.path.join(work, "fuzz_corpus")
    art = os.path.join(work, "fuzz_artifacts") + os.sep
    os.makedirs(corpus, exist_ok=True)
    os.makedirs(art, exist_ok=True)
    seedc = os.path.join(SHIM, "corpus")
    dirs = [corpus] + ([seedc] if os.path.isdir(seedc) else [])
    cmd = [exe] + dirs + ["-max_total_time=%d" % seconds, "-seed=%d" % (seed % (2 ** 31) or 1), "-max_len=256", "-print_final_stats=1",
                          "-artifact_prefix=" + art, "-jobs=%d" % workers, "-workers=%d" % workers, "-rss_limit_mb=3000"]
    env = dict(os.environ, ASAN_OPTIONS="abort_on_error=1:detect_leaks=0", UBSAN_OPTIONS="print_stacktrace=1")
    subprocess.run(cmd, cwd=work, capture_output=True, text=True, env=env, timeout=seconds + 300)
    execs = 0
    logs = ""
    for f in glob.glob(os.path.join(work, "fuzz-*.log")):
        with open(f, errors="replace") as fh:
            t = fh.read()
        logs += t
        for m in re.finditer(r"stat::number_of_executed_units:\s+(\d+)", t):
            execs += int(m.group(1))
    failures = []
    seen = set()
    dest = os.path.join(bootstrap.VERIF, "replays", pid)
    for f in sorted(glob.glob(art + "*")):
        base = os.path.basename(f)
        if not (base.startswith("crash-") or base.startswith("oom-") or base.startswith("timeout-")):
            continue
        if base.startswith("timeout-") or base.startswith("oom-"):
            continue                      # resource budget, never a violation
        ok, msg = replay(f)
        if ok:
            continue                      # does not reproduce from the saved input: not reported
        m = re.match(r"(C\d+) (\S+): ", msg)
        prop = m.group(1) if m else pid   # sanitizer findings are reported by whichever check runs the campaign
        if prop != pid:
            continue
        clause = m.group(2) if m else "memory-safety"
        key = "fuzz:" + clause
        if key in seen:
            continue
        seen.add(key)
        os.makedirs(dest, exist_ok=True)
        p = os.path.join(dest, "fuzz_%s_%s" % (clause, base))
        shutil.copy(f, p)
        failures.append({"key": key, "clause": clause, "msg": msg, "path": p})
    cov = {"libfuzzer_executions": execs, "libfuzzer_seconds": seconds, "libfuzzer_workers": workers,
           "libfuzzer_corpus_units": len(os.listdir(corpus)), "libfuzzer_seed_corpus": len(os.listdir(seedc)) if os.path.isdir(seedc) else 0,
           "libfuzzer_build": "clang++-14 -fsanitize=fuzzer,address,undefined on the current matid/ext/{geometry,celllist}.cpp"}
    return failures, cov
