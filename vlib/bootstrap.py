"""Imported before anything touches matid.

* pins the environment (hash seed / thread counts are set by ./check and re-asserted for workers),
* makes ``import matid`` resolve to the tree under test (``/repo``; ``VERIF_REPO`` overrides it for
  sensitivity trials only - registered commands never set it),
* makes sure ``matid.ext`` corresponds to the C++ sources of that tree (DESIGN 2.6): if
  ``matid/ext/{geometry,celllist}.{cpp,h}`` differ from the pinned sources the in-tree binary was built
  from, the sources are compiled against the pybind11-free shim and injected as ``matid.ext``.
"""
import glob
import hashlib
import os
import subprocess
import sys

VERIF = os.path.dirname(os.path.dirname(os.path.abspath(__file__)))
REPO = os.path.abspath(os.environ.get("VERIF_REPO", "/repo"))
GUARD_ENV = "MATID_VERIF"

# sha256 over the four C++ files that make up the numerical core, as pinned
PINNED_CPP = {
    "celllist.cpp": "202cc9f1f670ec93d75dccd10e61a85a0224524b250252bba4f420e089ea2ba3",
    "geometry.cpp": "d7e6cb31ceb37ad2cd4b49b8794c338498b9e8f1bca56797021b3e9c0e1068cb",
    "celllist.h": "af07c256447a2bb9a563fa60ad7bc73c8c146be43ebc38a7fa8b731c6679973e",
    "geometry.h": "f86000341bc5672faf6ac954ee90ef2ee9a5822ef553649874d8c620bea3e5f4",
}
PINNED_EXT_CPP = "ba0f70560416a79ad9b76a03ba002a81e293f33b6058dfc8d0fff5c77a42840c"

CPP_MODE = None  # "in-tree" | "shim:<hash>"


class HarnessError(Exception):
    pass


def _sha(path):
    with open(path, "rb") as f:
        return hashlib.sha256(f.read()).hexdigest()


def cpp_state(repo=None):
    repo = repo or REPO
    d = os.path.join(repo, "matid", "ext")
    cur = {}
    for name in PINNED_CPP:
        p = os.path.join(d, name)
        cur[name] = _sha(p) if os.path.exists(p) else None
    pinned = all(cur[k] == PINNED_CPP[k] for k in PINNED_CPP)
    h = hashlib.sha256("".join("%s:%s;" % (k, cur[k]) for k in sorted(cur)).encode()).hexdigest()[:16]
    return pinned, h


def build_shim(repo=None, force=False):
    """Compile the repo's current geometry.cpp/celllist.cpp against the fake pybind11 header."""
    repo = repo or REPO
    _, h = cpp_state(repo)
    out_dir = os.path.join(VERIF, ".build", h)
    so = os.path.join(out_dir, "libms.so")
    if os.path.exists(so) and not force:
        return so
    os.makedirs(out_dir, exist_ok=True)
    shim = os.path.join(VERIF, "cppshim")
    ext = os.path.join(repo, "matid", "ext")
    tmp = so + ".%d.tmp" % os.getpid()
    cmd = ["g++", "-O2", "-std=c++11", "-shared", "-fPIC", "-I", os.path.join(shim, "fake_pybind"), "-I", ext,
           os.path.join(shim, "capi.cpp"), os.path.join(ext, "geometry.cpp"), os.path.join(ext, "celllist.cpp"), "-o", tmp]
    r = subprocess.run(cmd, capture_output=True, text=True)
    if r.returncode != 0:
        raise HarnessError("C++ shim build failed (the repository's C++ does not compile against the shim):\n" + r.stderr[-3000:])
    os.replace(tmp, so)
    return so


def load_shim_module(so):
    import importlib.util
    spec = importlib.util.spec_from_file_location("matid_ext_shim", os.path.join(VERIF, "cppshim", "ext_shim.py"))
    mod = importlib.util.module_from_spec(spec)
    spec.loader.exec_module(mod)
    mod._load(so)
    return mod


def setup(force_shim=False):
    """Idempotent.  Returns the imported matid package."""
    global CPP_MODE
    if "matid" in sys.modules and CPP_MODE is not None:
        return sys.modules["matid"]
    os.environ.setdefault("OMP_NUM_THREADS", "1")
    os.environ[GUARD_ENV] = "1"
    if VERIF not in sys.path:
        sys.path.insert(0, VERIF)
    if REPO != "/repo":
        sys.path.insert(0, REPO)
    pinned, h = cpp_state()
    have_so = bool(glob.glob(os.path.join(REPO, "matid", "ext.*.so")))
    use_shim = force_shim or os.environ.get("VERIF_FORCE_SHIM") == "1" or not pinned
    ext_cpp = os.path.join(REPO, "matid", "ext", "ext.cpp")
    if not use_shim and not have_so:
        # scratch worktree without the (git-ignored) binary: borrow /repo's if that one is built from the same sources
        src = glob.glob("/repo/matid/ext.*.so")
        if src and cpp_state("/repo")[0]:
            import shutil
            shutil.copy(src[0], os.path.join(REPO, "matid", os.path.basename(src[0])))
        else:
            use_shim = True
    if use_shim:
        so = build_shim()
        shim = load_shim_module(so)
        shim.__name__ = "matid.ext"
        sys.modules["matid.ext"] = shim
        CPP_MODE = "shim:" + h
    else:
        CPP_MODE = "in-tree"
    import warnings
    warnings.filterwarnings("ignore")
    import matid
    if use_shim:
        matid.ext = sys.modules["matid.ext"]
    got = os.path.dirname(os.path.abspath(matid.__file__))
    if os.path.realpath(got) != os.path.realpath(os.path.join(REPO, "matid")):
        raise HarnessError("matid imported from %s, expected %s" % (got, os.path.join(REPO, "matid")))
    if os.path.exists(ext_cpp) and _sha(ext_cpp) != PINNED_EXT_CPP and CPP_MODE == "in-tree":
        # binding file changed but core did not: the binary cannot reflect it; say so (trusted base)
        CPP_MODE = "in-tree(ext.cpp modified, not rebuilt)"
    return matid
