"""'Messy structures' (DESIGN 2.3) for C01 / C13 / C17: random gases, rattled / defective / substituted supercells,
isolated on-lattice atoms, two crystals in one cell, crystallites, molecules in a box - with any pbc, skewed or
degenerate cells, wrapped or unwrapped positions.  Every random choice is a Hypothesis draw; selections of atoms
(vacancies, rattling) are deterministic functions of drawn 32-bit integers recorded in the descriptor."""
import numpy as np
from hypothesis import strategies as st

from vlib.gen import cells as gc

PROTO = [("Cu", "fcc", 3.6), ("Fe", "bcc", 2.87), ("Si", "diamond", 5.43), ("Mg", "hcp", None), ("NaCl", "rocksalt", 5.64),
         ("ZnS", "zincblende", 5.41), ("CsCl", "cesiumchloride", 4.12), ("CaF2", "fluorite", 5.46), ("Al", "fcc", 4.05), ("Po", "sc", 3.35)]
MOLECULES = ["H2O", "CH4", "C6H6", "NH3", "CO2", "C2H6"]
GAS_Z = [1, 6, 8, 14, 29, 79]
seeds = st.integers(0, 2 ** 32 - 1)


@st.composite
def structures(draw, max_atoms=300, full_rank_only=False, allow_zero_periodic=True, slab_bias=False):
    fam = draw(st.sampled_from(["isolated", "crystal", "twoincell", "crystallite", "grains", "stack", "gas", "molecule", "slab", "farpair"]))
    d = {"family": fam, "pbc": draw(gc.pbcs)}
    if slab_bias:
        # C17 needs many two-dimensional networks: more slabs, mostly periodic in the slab plane
        if draw(st.integers(0, 2)) == 0:
            fam = "slab"
            d["family"] = fam
        if fam == "slab" and draw(st.integers(0, 3)) != 3:
            d["pbc"] = [True, True, draw(st.booleans())]
    if fam == "gas":
        d["cell"] = draw(gc.cell_descs(lo=3.0, hi=12.0, kinds=("orth", "tric", "sheared", "special"), allow_lefthanded=True))
        if d["cell"].get("shear") is not None:
            # moderate shears only: MatID's memory need grows with (longest cell vector / smallest cell height)^2 (see too_skewed)
            d["cell"]["shear"] = draw(gc.shears(max_steps=2, max_k=2))
        n = draw(st.integers(1, 40))
        d["frac"] = [[draw(gc.ffloat(-0.3, 1.3)) for _ in range(3)] for _ in range(n)]
        d["Z"] = [draw(st.sampled_from(GAS_Z)) for _ in range(n)]
    elif fam == "molecule":
        d["mol"] = draw(st.sampled_from(MOLECULES))
        d["box"] = [draw(gc.ffloat(2.0, 10.0)) for _ in range(3)]
    elif fam == "farpair":
        # two fragments (molecules or single atoms) far apart in a big box: a structure of several components, with or without
        # periodic directions
        d["mols"] = [draw(st.sampled_from(MOLECULES + ["C", "Cu"])) for _ in range(2)]
        d["sep"] = draw(st.sampled_from([12.0, 8.0, 20.0, 30.0])) + draw(gc.ffloat(0.0, 2.0))
        d["dir"] = draw(st.lists(gc.ffloat(-1.0, 1.0), min_size=3, max_size=3))
        d["box"] = [draw(st.sampled_from([40.0, 25.0, 60.0])) + draw(gc.ffloat(0.0, 5.0)) for _ in range(3)]
    else:
        d["proto"] = draw(st.integers(0, len(PROTO) - 1))
        d["cubic"] = draw(st.booleans())
        d["reps"] = [draw(st.sampled_from([2, 3, 1, 4])) for _ in range(3)]
        if fam == "twoincell":
            # a second crystal placed into the first one's cell (the two overlap / interpenetrate)
            d["reps"] = [draw(st.sampled_from([1, 2, 3])) for _ in range(3)]
            d["proto2"] = draw(st.integers(0, len(PROTO) - 1))
            d["reps2"] = [draw(st.sampled_from([1, 2])) for _ in range(3)]
            d["shift2"] = [draw(gc.ffloat(0.0, 3.0)) for _ in range(3)]
        if fam in ("grains", "stack"):
            d["proto2"] = draw(st.integers(0, len(PROTO) - 1))
            d["reps2"] = [draw(st.sampled_from([2, 1, 3])) for _ in range(3)]
            d["gap"] = draw(gc.ffloat(1.5, 3.0)) if draw(st.integers(0, 2)) else draw(gc.ffloat(3.0, 6.0))
            d["quat"] = draw(st.lists(gc.ffloat(-1.0, 1.0), min_size=4, max_size=4))
        if fam == "isolated":
            d["n_iso"] = draw(st.integers(1, 2))
            d["iso_seed"] = draw(seeds)
        if fam == "crystallite":
            d["radius_pct"] = draw(gc.ffloat(40.0, 100.0))
            # vacuum per side: from "the crystallite nearly touches its periodic copies" (gap 2 x 1.2 A) to clearly isolated;
            # explicit magnitudes + jitter (bounded Hypothesis floats cluster at the lower bound)
            d["vacuum"] = draw(st.sampled_from([4.0, 1.2, 1.5, 1.8, 2.5, 6.0, 8.0])) + draw(gc.ffloat(0.0, 0.3))
        if fam == "slab":
            d["layers_cut"] = draw(st.integers(1, 2))
            d["vacuum"] = draw(gc.ffloat(4.0, 10.0))
            d["adsorbate"] = draw(st.sampled_from([None, None, 1, 8]))
        d["vac_frac"] = draw(st.sampled_from([0.0, 0.0, 0.05, 0.25, 0.33]))
        d["vac_seed"] = draw(seeds)
        d["subst"] = draw(st.sampled_from([0, 0, 1, 3]))
        d["rattle"] = draw(st.sampled_from([0.0, 0.02, 0.1, 0.3]))
        d["rattle_seed"] = draw(seeds)
        if fam == "crystal" and draw(st.integers(0, 3)) == 0:
            # an IDEAL crystal (no rattle, no defects) that is one conventional cell thick along one axis and as wide as the atom
            # budget allows along the others: every bond across the thin axis duplicates a contact inside the cell, exact ties
            # between an atom pair and its periodic image are the rule
            per_cell = {0: 4, 1: 2, 2: 8, 3: 2, 4: 8, 5: 8, 6: 2, 7: 12, 8: 4, 9: 1}[d["proto"]]
            big = int(max(2, min(6, np.floor(np.sqrt(max_atoms / float(per_cell))))))
            thin = draw(st.integers(0, 2))
            d["cubic"] = True
            d["reps"] = [1 if i == thin else big for i in range(3)]
            d["vac_frac"], d["subst"], d["rattle"] = 0.0, 0, 0.0
            d["pbc"] = [True, True, True] if draw(st.integers(0, 2)) else d["pbc"]
            d["ideal_thin"] = True
        if fam == "crystal" and not d.get("ideal_thin") and draw(st.integers(0, 2)) == 0:
            d["shear"] = draw(gc.shears(max_steps=2, max_k=1))
    if not full_rank_only and draw(st.integers(0, 3)) == 0:
        d["zero"] = [draw(st.booleans()) for _ in range(3)]
        if not allow_zero_periodic:
            d["zero"] = [z and not p for z, p in zip(d["zero"], d["pbc"])]
    if draw(st.integers(0, 3)) == 0:
        d["unwrap_seed"] = draw(seeds)
    if draw(st.integers(0, 4)) == 0:
        # the cell is the tight bounding box along the non-periodic directions: atoms lie exactly ON the lower and upper faces
        d["tightbox"] = True
    if draw(st.integers(0, 3)) == 0:
        d["payload"] = draw(seeds)      # FixAtoms on a subset, tags, magmoms, charges attached to the Atoms object
    d["max_atoms"] = max_atoms
    return d


def _proto(i, cubic):
    import ase.build
    n, s, a = PROTO[i]
    if a is None:
        return ase.build.bulk(n)
    if s in ("hcp",):
        return ase.build.bulk(n, s, a=a)
    try:
        return ase.build.bulk(n, s, a=a, cubic=bool(cubic))
    except Exception:
        return ase.build.bulk(n, s, a=a)


def build(d):
    """descriptor -> ase.Atoms (always at least one atom)."""
    import ase.build
    from ase import Atoms
    from ase.data import covalent_radii
    fam = d["family"]
    pbc = np.array(d["pbc"], bool)
    if fam == "gas":
        cell = gc.build_cell(d["cell"])
        s = Atoms(numbers=d["Z"], positions=np.array(d["frac"], float) @ cell, cell=cell, pbc=pbc)
    elif fam == "molecule":
        s = ase.build.molecule(d["mol"])
        s.set_cell(np.diag(d["box"]))
        s.set_pbc(pbc)
    elif fam == "farpair":
        parts = [Atoms(m, positions=[[0.0, 0.0, 0.0]]) if m in ("C", "Cu") else ase.build.molecule(m) for m in d["mols"]]
        v = np.array(d["dir"], float)
        v = v / np.linalg.norm(v) if np.linalg.norm(v) > 1e-6 else np.array([1.0, 0.0, 0.0])
        parts[1].translate(v * float(d["sep"]))
        s = parts[0] + parts[1]
        s.set_cell(np.diag(d["box"]))
        s.center()
        s.set_pbc(pbc)
    else:
        b = _proto(d["proto"], d["cubic"])
        s = b.repeat(tuple(d["reps"]))
        if fam == "isolated":
            r = np.random.RandomState(d["iso_seed"])
            for _ in range(d["n_iso"]):
                if len(s) < 10:
                    break
                D = s.get_all_distances(mic=True)
                rad = covalent_radii[s.get_atomic_numbers()]
                i = r.randint(len(s))
                nb = [j for j in range(len(s)) if j != i and D[i, j] - rad[i] - rad[j] <= 0.7]
                if nb:
                    del s[nb]
            s.set_pbc(pbc)
            if not pbc.all():
                s.center(vacuum=5.0, axis=[i for i in range(3) if not pbc[i]])
        elif fam == "crystal":
            s.set_pbc(pbc)
        elif fam == "twoincell":
            s2 = _proto(d["proto2"], d["cubic"]).repeat(tuple(d["reps2"]))
            s2.translate(np.array(d["shift2"], float))
            cell0 = np.asarray(s.get_cell()).copy()
            s = s + s2
            s.set_cell(cell0, scale_atoms=False)
            s.set_pbc(pbc)
        elif fam == "crystallite":
            s.set_pbc(False)
            s.center(vacuum=d["vacuum"])
            c = s.get_positions().mean(axis=0)
            dist = np.linalg.norm(s.get_positions() - c, axis=1)
            R = np.percentile(dist, d["radius_pct"])
            s = s[[i for i in range(len(s)) if dist[i] <= R]]
            s.set_pbc(pbc)
        elif fam == "slab":
            s.set_pbc(True)
            z = s.get_scaled_positions()[:, 2]
            keep = z < (1.0 - 0.999 * d["layers_cut"] / (d["reps"][2] + 1))
            if keep.sum() >= 1:
                s = s[[i for i in range(len(s)) if keep[i]]]
            s.center(vacuum=d["vacuum"], axis=2)
            if d.get("adsorbate"):
                top = int(np.argmax(s.get_positions()[:, 2]))
                from ase import Atom
                s.append(Atom(int(d["adsorbate"]), position=s.get_positions()[top] + np.array([0.0, 0.0, 1.5])))
            s.set_pbc(pbc)
        else:
            b2 = _proto(d["proto2"], True)
            s2 = b2.repeat(tuple(d["reps2"]))
            s.set_pbc(False)
            s2.set_pbc(False)
            p1, p2 = s.get_positions(), s2.get_positions()
            if fam == "grains":
                Q = gc.quat_to_rot(d["quat"])
                p2 = p2 @ Q.T
                p2 = p2 - p2.min(axis=0) + p1.min(axis=0) + np.array([np.ptp(p1[:, 0]) + d["gap"], 0.0, 0.0])
            else:
                p2 = p2 + np.array([0.0, 0.0, p1[:, 2].max() - p2[:, 2].min() + d["gap"]])
            s2.set_positions(p2)
            s = s + s2
            s.center(vacuum=4.0)
            s.set_pbc(pbc)
        n = len(s)
        if d.get("vac_frac") and n > 2:
            r = np.random.RandomState(d["vac_seed"])
            k = int(d["vac_frac"] * n)
            if k:
                drop = set(r.choice(n, k, replace=False).tolist())
                s = s[[i for i in range(n) if i not in drop]]
        if d.get("subst"):
            r = np.random.RandomState(d["vac_seed"] ^ 0x5A5A)
            nums = s.get_atomic_numbers()
            for _ in range(min(d["subst"], len(s))):
                nums[r.randint(len(s))] = [1, 8, 79][r.randint(3)]
            s.set_atomic_numbers(nums)
        if d.get("rattle"):
            s.rattle(float(d["rattle"]), seed=int(d["rattle_seed"] % (2 ** 31)))
        if d.get("shear") is not None:
            M = np.array(d["shear"], int)
            # only mix periodic axes with each other: the lattice (and hence the structure) stays the same
            for i in range(3):
                for j in range(3):
                    if i != j and not (pbc[i] and pbc[j]):
                        M[i, j] = 0
            if abs(round(np.linalg.det(M))) == 1:
                s.set_cell(M @ np.asarray(s.get_cell()), scale_atoms=False)
    if len(s) > d.get("max_atoms", 300):
        s = s[list(range(d["max_atoms"]))]
    if d.get("unwrap_seed") is not None and np.asarray(s.get_pbc()).any():
        r = np.random.RandomState(d["unwrap_seed"])
        k = r.randint(-2, 3, size=(len(s), 3)).astype(float)
        k[:, ~np.asarray(s.get_pbc())] = 0
        s.set_positions(s.get_positions() + k @ np.asarray(s.get_cell()))
    if d.get("tightbox") and not np.asarray(s.get_pbc()).all() and abs(np.linalg.det(np.asarray(s.get_cell()))) > 1e-6:
        c = np.asarray(s.get_cell()).copy()
        f = np.linalg.solve(c.T, s.get_positions().T).T
        for i in range(3):
            if not s.get_pbc()[i] and np.ptp(f[:, i]) * np.linalg.norm(c[i]) > 0.5:
                lo, ext = f[:, i].min(), np.ptp(f[:, i])
                s.set_positions(s.get_positions() - lo * c[i])
                c[i] = c[i] * ext
        s.set_cell(c, scale_atoms=False)
    if d.get("zero"):
        c = np.asarray(s.get_cell()).copy()
        for i in range(3):
            if d["zero"][i]:
                c[i] = 0.0
        s.set_cell(c, scale_atoms=False)
    if d.get("payload") is not None:
        s.set_constraint()
        gc.attach_payload(s, d["payload"])
    return s


def too_skewed(s, limit=60.0):
    """Resource bound (DESIGN 9.4): a periodic cell whose longest periodic vector is more than `limit` times its smallest periodic
    height (a strongly sheared description of a small lattice) makes MatID's neighbour search allocate memory in proportion to the
    bounding box of the periodic copies - gigabytes for 20 atoms.  Such inputs are not generated as positives; counted."""
    pbc = np.asarray(s.get_pbc())
    cell = np.asarray(s.get_cell(), float)
    if not pbc.any() or abs(np.linalg.det(cell)) < 1e-9:
        return False
    h = gc.heights(cell)
    L = np.linalg.norm(cell, axis=1)
    return bool(L[pbc].max() / h[pbc].min() > limit)


def labels(d, s):
    pbc = np.asarray(s.get_pbc())
    cell = np.asarray(s.get_cell())
    zero = [not cell[i].any() for i in range(3)]
    out = ["family=" + d["family"], "npbc=%d" % pbc.sum(), "natoms<=%d" % (10 if len(s) <= 10 else 50 if len(s) <= 50 else 150 if len(s) <= 150 else 300)]
    if any(zero):
        out.append("zero-periodic-vector" if any(z and p for z, p in zip(zero, pbc)) else "zero-nonperiodic-vector")
    if d.get("unwrap_seed") is not None:
        out.append("unwrapped")
    if d.get("shear") is not None:
        out.append("sheared")
    if d.get("tightbox") and not pbc.all():
        out.append("tightbox")
    if d.get("ideal_thin"):
        out.append("ideal-thin-supercell")
    if d.get("payload") is not None:
        out.append("payload:constraints+tags+magmoms")
    return out
