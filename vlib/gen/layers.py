"""2D layers for C11 (and the 2D path of C08): atoms from orbits of the layer-compatible symmorphic space groups,
thickness <= 3 A, c perpendicular to the plane; plus graphene / h-BN / MX2; and their presentation variants."""
import functools

import numpy as np
from hypothesis import strategies as st

from vlib.gen import cells as gc
from vlib.oracles import spgref

SPECIES = [1, 5, 6, 7, 8, 14, 16, 42]
NAMED = ["graphene", "hBN", "MoS2-2H", "MoS2-1T", "WSe2-2H"]


@functools.lru_cache(maxsize=None)
def layer_groups():
    """Symmorphic space groups with P or C lattice whose operations never mix c with a, b and carry no translation along c."""
    out = []
    for sg in range(1, 195):
        if spgref.centring(sg) not in "PC":
            continue
        R, t = spgref.operations(sg)
        if any(r[2, 0] or r[2, 1] or r[0, 2] or r[1, 2] for r in R):
            continue
        if any(abs(spgref.wrapd(tt)[2]) > 1e-9 for tt in t):
            continue
        cent = [tt for r, tt in zip(R, t) if (r == np.eye(3, dtype=int)).all()]
        ok = True
        for key in {tuple(r.flatten()) for r in R}:
            tts = [tt for r, tt in zip(R, t) if tuple(r.flatten()) == key]
            if not any(any(np.allclose(spgref.wrapd(tt - c), 0, atol=1e-9) for c in cent) for tt in tts):
                ok = False
        if ok:
            out.append(sg)
    return tuple(out)


def inplane(sg, a, b, ga):
    if sg <= 2:
        return a, b, ga
    if sg <= 74:
        return a, b, 90.0
    if sg <= 142:
        return a, a, 90.0
    return a, a, 120.0


@st.composite
def layer_descs(draw):
    if draw(st.integers(0, 7)) == 7:
        return {"named": draw(st.sampled_from(NAMED))}
    sg = draw(st.sampled_from(list(layer_groups())))
    n_orb = draw(st.integers(1, 3))
    zs = draw(st.permutations(SPECIES))[:n_orb]
    orbits = []
    # a fifth of the layers has every orbit on a special in-plane position (0, 1/2, 1/3, 2/3): species on positions that a
    # normalizer translation exchanges - the case in which the canonical choice of the letters actually has to decide
    all_special = n_orb >= 2 and draw(st.integers(0, 4)) == 4
    for k in range(n_orb):
        special = all_special or draw(st.integers(0, 2)) == 2
        if special:
            xy = [draw(st.sampled_from([0.0, 0.5, 1 / 3, 2 / 3])) for _ in range(2)]
        else:
            xy = [gc.generic(draw, 2 * k + j, 0.05, 0.95) for j in range(2)]
        orbits.append({"Z": int(zs[k]), "xy": xy, "zrel": gc.generic(draw, 9 + k, -0.5, 0.5)})
    thick = draw(st.sampled_from([0.0, 0.0, 1.0, 2.0, 3.0])) * gc.generic(draw, 16, 0.3, 1.0)
    if draw(st.integers(0, 5)) == 5:
        # stacked sheets: every orbit sits exactly on the two outer planes z = +-thick/2 (AA-type bilayers when the group has
        # a horizontal mirror) - the case in which a too small internal vacuum creates a spurious c/2 translation
        thick = draw(gc.ffloat(1.5, 3.0))
        for o in orbits:
            o["zrel"] = 0.5 if draw(st.booleans()) else -0.5
    return {"sg": sg, "a": gc.generic(draw, 13, 3.0, 6.0), "b": gc.generic(draw, 14, 3.0, 6.0), "gamma": gc.generic(draw, 15, 70.0, 110.0),
            "thick": thick, "orbits": orbits}


@st.composite
def variants(draw):
    v = {"m2d": draw(st.sampled_from([1.0, 0.5, 3.0]))}
    kinds = [k for k in ["vacuum", "relabel", "super", "rigid", "flip", "perm"] if draw(st.integers(0, 2)) == 0]
    if "vacuum" in kinds:
        v["vacuum"] = draw(gc.ffloat(0.6, 2.0))
    if "relabel" in kinds:
        v["relabel"] = draw(st.permutations([0, 1, 2]))
    if "super" in kinds:
        v["super"] = [draw(st.integers(1, 2)), draw(st.integers(1, 3))]
    if "rigid" in kinds:
        v["quat"] = draw(st.lists(gc.ffloat(-1.0, 1.0), min_size=4, max_size=4))
        v["trans"] = [draw(gc.ffloat(-5.0, 5.0)) for _ in range(3)]
    if "flip" in kinds:
        v["flip"] = True
    if "perm" in kinds:
        v["perm"] = draw(st.integers(0, 2 ** 32 - 1))
    if draw(st.integers(0, 2)) == 0:
        v["payload"] = draw(st.integers(0, 2 ** 32 - 1))      # FixAtoms on a subset, tags, magmoms, charges on the Atoms object
    return v


def variant_labels(v):
    if v.get("payload") is not None:
        return ["var:payload"] + _variant_labels(v)
    return _variant_labels(v)


def _variant_labels(v):
    ks = [k for k in ("vacuum", "relabel", "super", "quat", "flip", "perm") if v.get(k) is not None]
    return ["var:" + k for k in ks] if ks else ["var:identity"]


def build_layer(d, retry=0):
    """Base layer: ase.Atoms with pbc (T,T,F), c = 20 A perpendicular to the plane, atoms centred at c/2."""
    from ase import Atoms
    import ase.build
    if "named" in d:
        n = d["named"]
        if n == "graphene":
            at = ase.build.graphene(vacuum=10.0)
        elif n == "hBN":
            at = ase.build.graphene(formula="BN", a=2.50, vacuum=10.0)
        else:
            f, k = n.split("-")
            at = ase.build.mx2(formula=f, kind=k, a=3.18 if f == "MoS2" else 3.32, thickness=3.19 if f == "MoS2" else 3.35, vacuum=10.0)
        at.set_pbc([True, True, False])
        return at
    sg = d["sg"]
    R, t = spgref.operations(sg)
    a, b, ga = inplane(sg, d["a"], d["b"], d["gamma"])
    c = 20.0
    pts, nums = [], []
    for k, o in enumerate(d["orbits"]):
        xy = list(o["xy"])
        if retry and not all(x in (0.0, 0.5, 1 / 3, 2 / 3) for x in xy):
            xy = [0.05 + 0.9 * (((x - 0.05) / 0.9 + gc.PHI[(2 * k + i + 5 * retry) % len(gc.PHI)]) % 1.0) for i, x in enumerate(xy)]
        p = np.array([xy[0], xy[1], o["zrel"] * d["thick"] / c]) % 1.0
        ob = spgref.orbit(R, t, p)
        pts.append(ob)
        nums += [o["Z"]] * len(ob)
    frac = np.vstack(pts)
    # spacing by construction: at least ~5 A^2 of in-plane area per atom
    area = a * b * np.sin(np.radians(ga))
    s = max(1.0, np.sqrt(7.0 * len(nums) / area))
    cell = gc.cellpar_to_cell(a * s, b * s, c, 90.0, 90.0, ga)
    pos = frac @ cell
    pos[:, 2] = (pos[:, 2] + c / 2) % c
    return Atoms(numbers=nums, positions=pos, cell=cell, pbc=[True, True, False])


def apply_variant(at, v):
    from ase import Atoms
    b = at.copy()
    if v.get("vacuum") is not None:
        c = np.asarray(b.get_cell()).copy()
        ext = np.ptp(b.get_positions() @ (c[2] / np.linalg.norm(c[2])))
        newlen = max(np.linalg.norm(c[2]) * v["vacuum"], ext + 6.0)
        c[2] = c[2] / np.linalg.norm(c[2]) * newlen
        b.set_cell(c, scale_atoms=False)
    if v.get("super") is not None:
        b = b.repeat((int(v["super"][0]), int(v["super"][1]), 1))
    if v.get("flip"):
        q = np.diag([1.0, -1.0, -1.0])
        b.set_cell(np.asarray(b.get_cell()) @ q.T, scale_atoms=False)
        b.set_positions(b.get_positions() @ q.T)
    if v.get("quat") is not None:
        Q = gc.quat_to_rot(v["quat"])
        b.set_cell(np.asarray(b.get_cell()) @ Q.T, scale_atoms=False)
        b.set_positions(b.get_positions() @ Q.T + np.array(v["trans"], float))
    if v.get("perm") is not None:
        r = np.random.RandomState(v["perm"] % (2 ** 32))
        b = b[r.permutation(len(b))]
    if v.get("relabel") is not None:
        perm = list(v["relabel"])
        b = Atoms(numbers=b.get_atomic_numbers(), positions=b.get_positions(), cell=np.asarray(b.get_cell())[perm], pbc=np.asarray(b.get_pbc())[perm])
    if v.get("payload") is not None:
        b.set_constraint()
        gc.attach_payload(b, v["payload"])
    return b


def conditioned_layer(d, out):
    """Base layer or None (out.discard set): near-collisions and ill-conditioned symmetry are discarded and counted."""
    import spglib
    for retry in range(5):
        at = build_layer(d, retry)
        if len(at) > 100:
            out.discard = "too-big"
            return None
        close = False
        if len(at) > 1:
            D = at.get_all_distances(mic=True)
            np.fill_diagonal(D, 9.0)
            close = D.min() < 0.7
        if not close:
            break
        if "named" in d:
            break
    if close:
        out.discard = "too-close"
        return None
    cellt = (np.asarray(at.get_cell()), at.get_scaled_positions(), at.get_atomic_numbers())
    d1 = spglib.get_symmetry_dataset(cellt, symprec=1e-4)
    d2 = spglib.get_symmetry_dataset(cellt, symprec=1e-2)
    if d1 is None or d2 is None or d1.number != d2.number:
        out.discard = "ill-conditioned"
        return None
    return at


def build_variant(layer, variant, out):
    at = conditioned_layer(layer, out)
    if at is None:
        return None
    out.cls(*variant_labels(variant))
    return apply_variant(at, variant)
