"""Hypothesis strategies for cells, periodicities and rigid motions (DESIGN 2.3).

Everything is drawn through Hypothesis primitives; the functions below turn the drawn numbers into
numpy arrays deterministically.  Construction, not rejection: every drawn parameter set is a valid cell.
"""
import math

import numpy as np
from hypothesis import strategies as st


def ffloat(lo, hi):
    return st.floats(min_value=lo, max_value=hi, allow_nan=False, allow_infinity=False, width=64)


def cellpar_to_cell(a, b, c, al, be, ga):
    """Lower-triangular-ish standard construction; valid for the angle ranges we draw."""
    al, be, ga = (math.radians(x) for x in (al, be, ga))
    ca, cb, cg, sg = math.cos(al), math.cos(be), math.cos(ga), math.sin(ga)
    cx = cb
    cy = (ca - cb * cg) / sg
    cz2 = 1.0 - cx * cx - cy * cy
    if cz2 <= 1e-12:
        raise ValueError("invalid cell angles")
    return np.array([[a, 0.0, 0.0], [b * cg, b * sg, 0.0], [c * cx, c * cy, c * math.sqrt(cz2)]])


def quat_to_rot(q):
    q = np.asarray(q, float)
    n = np.linalg.norm(q)
    if n < 1e-3:
        return np.eye(3)
    w, x, y, z = q / n
    return np.array([
        [1 - 2 * (y * y + z * z), 2 * (x * y - z * w), 2 * (x * z + y * w)],
        [2 * (x * y + z * w), 1 - 2 * (x * x + z * z), 2 * (y * z - x * w)],
        [2 * (x * z - y * w), 2 * (y * z + x * w), 1 - 2 * (x * x + y * y)],
    ])


rotations = st.one_of(
    st.just([1.0, 0.0, 0.0, 0.0]),
    st.lists(ffloat(-1.0, 1.0), min_size=4, max_size=4),
)

# drawn as "non-periodic" flags so that Hypothesis' bias towards False/minimal values favours periodic axes
pbcs = st.lists(st.booleans(), min_size=3, max_size=3).map(lambda l: [not x for x in l])


@st.composite
def shears(draw, max_steps=4, max_k=3):
    """Integer unimodular matrix: product of 1..max_steps elementary shears (row_i += k*row_j)."""
    M = np.eye(3, dtype=int)
    for _ in range(draw(st.integers(1, max_steps))):
        i = draw(st.integers(0, 2))
        j = (i + draw(st.integers(1, 2))) % 3
        k = draw(st.integers(-max_k, max_k))
        M[i] += k * M[j]
    return M.tolist()


@st.composite
def cell_descs(draw, lo=0.5, hi=30.0, kinds=("orth", "tric", "sheared", "needle", "special"), rotate=True, allow_lefthanded=True):
    """Descriptor of a non-singular cell: dict(kind, par, shear, quat, lefthanded)."""
    kind = draw(st.sampled_from(list(kinds)))
    if kind == "needle":
        base = draw(ffloat(max(lo, 0.5), max(lo, min(hi / 8.0, 3.0))))
        fac = [draw(ffloat(8.0, 12.0)) if draw(st.booleans()) else 1.0 for _ in range(3)]
        if all(f == 1.0 for f in fac):
            fac[draw(st.integers(0, 2))] = draw(ffloat(8.0, 12.0))
        L = [min(hi, base * f) for f in fac]
    else:
        L = [draw(ffloat(lo, hi)) for _ in range(3)]
    if kind == "orth":
        ang = [90.0, 90.0, 90.0]
    elif kind == "special":
        # crystal-system shaped cells: some angles exactly 90 / 120 / 60 degrees, some generic (hexagonal, monoclinic, ...)
        ang = [draw(st.sampled_from([90.0, 120.0, 90.0, 60.0, None])) for _ in range(3)]
        ang = [a if a is not None else draw(ffloat(65.0, 115.0)) for a in ang]
        ca, cb, cg = (math.cos(math.radians(a)) for a in ang)
        if 1.0 - ca * ca - cb * cb - cg * cg + 2.0 * ca * cb * cg < 0.05:      # (near-)degenerate combination such as 120/120/120
            ang = [90.0, 90.0, ang[2]]
        if draw(st.booleans()):
            L[1] = L[0]                                                          # a = b as in tetragonal / hexagonal cells
    else:
        ang = [draw(ffloat(65.0, 115.0)) for _ in range(3)]
    d = {"kind": kind, "par": L + ang}
    if kind == "sheared":
        d["shear"] = draw(shears())
    if rotate:
        d["quat"] = draw(rotations)
    if allow_lefthanded and draw(st.integers(0, 5)) == 0:
        d["lefthanded"] = True
    return d


def build_cell(d):
    cell = cellpar_to_cell(*d["par"])
    if d.get("shear") is not None:
        cell = np.array(d["shear"], float) @ cell
    if d.get("quat") is not None:
        cell = cell @ quat_to_rot(d["quat"]).T
    if d.get("lefthanded"):
        cell = cell[[1, 0, 2]]
    return np.ascontiguousarray(cell)


def heights(cell):
    """Perpendicular heights of a full-rank cell."""
    cell = np.asarray(cell, float)
    v = abs(np.linalg.det(cell))
    return np.array([v / np.linalg.norm(np.cross(cell[(i + 1) % 3], cell[(i + 2) % 3])) for i in range(3)])


def cell_class(d):
    return d["kind"] + ("+lh" if d.get("lefthanded") else "") + ("+rot" if d.get("quat") not in (None, [1.0, 0.0, 0.0, 0.0]) else "")


# Hypothesis' first example of every test is the all-minimal one, and its shrinker steers towards "nice" numbers.
# Quantities that must be *generic* (free Wyckoff parameters, anchor orbits, lattice constants) are therefore drawn
# as u in [0,1] and shifted by fixed, pairwise incommensurate offsets: generic(draw, k) is generic even for u = 0.
PHI = [0.6180339887, 0.4142135623, 0.7320508075, 0.2360679775, 0.6457513110, 0.3166247903, 0.8284271247, 0.1231056256,
       0.5825756949, 0.9160797831, 0.0710678118, 0.3588989435, 0.7958315233, 0.2169905660, 0.4772255750, 0.6789083458,
       0.8740078740, 0.1547005383, 0.5440037453, 0.2915026221, 0.9442719099, 0.0385164807, 0.7015621187, 0.3851648071]


import os as _os
try:
    _SEED_SHIFT = 5 * (int(_os.environ.get("VERIF_SEED", "1") or 1) - 1)
except ValueError:
    _SEED_SHIFT = 0


def generic(draw, k, lo=0.0, hi=1.0):
    """u + fixed offset (mod 1).  The offset also depends on VERIF_SEED, so that the all-minimal first draw of an enumerated
    item (the only draw in a quick tier) differs between seeds; the drawn value is stored in the descriptor, so replay
    does not depend on the environment."""
    u = draw(st.floats(min_value=0.0, max_value=1.0, allow_nan=False, width=64))
    k = k + _SEED_SHIFT
    return lo + (hi - lo) * ((u + PHI[k % len(PHI)] * (1 + (k // len(PHI)) * 0.137)) % 1.0)


def attach_payload(atoms, seed):
    """What real files and workflows leave on an Atoms object besides the geometry: a FixAtoms constraint on a subset of the atoms
    (selective dynamics, frozen substrate), tags, initial magnetic moments and charges.  None of it is part of the structure; a
    deterministic function of `seed`.  Returns the same object."""
    from ase.constraints import FixAtoms
    n = len(atoms)
    if n == 0:
        return atoms
    r = np.random.RandomState(int(seed) % (2 ** 32))
    frozen = np.where(r.uniform(size=n) < 0.5)[0]
    if len(frozen) == n and n > 1:
        frozen = frozen[:-1]
    if len(frozen):
        atoms.set_constraint(FixAtoms(indices=[int(i) for i in frozen]))
    atoms.set_tags(r.randint(0, 3, size=n))
    atoms.set_initial_magnetic_moments(r.uniform(-1.0, 1.0, size=n))
    atoms.set_initial_charges(r.uniform(-0.5, 0.5, size=n))
    return atoms
