"""Reference crystals for the positive SBC / classifier properties C02-C04, C18 (DESIGN 2.3): ASE reference-state
elements with fcc/bcc/hcp/diamond/sc ground states and twelve compound prototypes; bulk supercells, slabs, stacks,
monolayers; the *independent* bonding/overlap precondition; rigid presentations and bounded noise."""
import functools

import numpy as np
from hypothesis import strategies as st

from vlib.gen import cells as gc

FACETS = [(1, 0, 0), (1, 1, 0), (1, 1, 1), (0, 0, 1)]
COMPOUNDS = [("NaCl", "rocksalt", 5.64), ("MgO", "rocksalt", 4.21), ("LiF", "rocksalt", 4.03), ("ZnS", "zincblende", 5.41), ("GaAs", "zincblende", 5.65),
             ("SiC", "zincblende", 4.36), ("CsCl", "cesiumchloride", 4.12), ("CaF2", "fluorite", 5.46)]
MONOLAYERS = ["graphene", "hBN", "MoS2-2H", "WSe2-2H", "PtSe2-1T"]
seeds = st.integers(0, 2 ** 32 - 1)


def heights(cell):
    cell = np.asarray(cell, float)
    return np.abs(np.linalg.det(cell)) / np.array([np.linalg.norm(np.cross(cell[(i + 1) % 3], cell[(i + 2) % 3])) for i in range(3)])


@functools.lru_cache(maxsize=None)
def library():
    """name -> (structure type, primitive cell Atoms, conventional cell Atoms)"""
    import ase.build
    from ase.data import reference_states, chemical_symbols
    from ase.spacegroup import crystal
    lib = {}
    for Z in range(1, 100):
        ref = reference_states[Z]
        if ref is None or ref["symmetry"] not in ("fcc", "bcc", "hcp", "diamond", "sc"):
            continue
        sym = chemical_symbols[Z]
        try:
            prim = ase.build.bulk(sym)
            conv = ase.build.bulk(sym, cubic=True) if ref["symmetry"] in ("fcc", "bcc", "diamond", "sc") else ase.build.bulk(sym)
        except Exception:
            continue
        lib[sym] = (ref["symmetry"], prim, conv)
    for f, s, a in COMPOUNDS:
        lib[f] = (s, ase.build.bulk(f, s, a=a), ase.build.bulk(f, s, a=a, cubic=True))
    z = ase.build.bulk("ZnO", "wurtzite", a=3.25, c=5.2)
    lib["ZnO"] = ("wurtzite", z, z)
    p = crystal(["Sr", "Ti", "O"], [(0, 0, 0), (.5, .5, .5), (.5, .5, 0)], spacegroup=221, cellpar=[3.905] * 3 + [90] * 3)
    lib["SrTiO3"] = ("perovskite", p, p)
    r = crystal(["Ti", "O"], [(0, 0, 0), (.305, .305, 0)], spacegroup=136, cellpar=[4.594, 4.594, 2.959, 90, 90, 90])
    lib["TiO2"] = ("rutile", r, r)
    l = crystal(["Li", "O"], [(.25, .25, .25), (0, 0, 0)], spacegroup=225, cellpar=[4.62] * 3 + [90] * 3, primitive_cell=True)
    lc = crystal(["Li", "O"], [(.25, .25, .25), (0, 0, 0)], spacegroup=225, cellpar=[4.62] * 3 + [90] * 3)
    lib["Li2O"] = ("antifluorite", l, lc)
    return lib


def names():
    return sorted(library())


def monolayer(name):
    import ase.build
    if name == "graphene":
        u = ase.build.graphene(vacuum=8.0)
    elif name == "hBN":
        u = ase.build.graphene(formula="BN", a=2.50, vacuum=8.0)
    else:
        f, k = name.split("-")
        par = {"MoS2": (3.18, 3.19), "WSe2": (3.32, 3.35), "PtSe2": (3.70, 2.60)}[f]
        u = ase.build.mx2(formula=f, kind=k, a=par[0], thickness=par[1], vacuum=8.0)
    u.set_pbc([True, True, False])
    return u


def make(name, form, facet=None, layers=None, pbcz=True, mcs=6.0, lateral_min=None, gap=None):
    """Single crystal: bulk supercell or slab, repeated so that every periodic height exceeds 2*mcs+0.5 (or lateral_min).
    Returns (Atoms, None) or (None, reason)."""
    import ase.build
    st_, prim, conv = library()[name]
    if len(prim) > 6:
        return None, "primitive>6atoms"
    if np.linalg.norm(np.asarray(prim.get_cell()), axis=1).max() >= mcs - 0.1:
        return None, "primitive-vector>=max_cell_size"
    need = 2 * mcs + 0.5 if lateral_min is None else lateral_min
    if form == "bulk":
        reps = np.ceil(need / heights(prim.get_cell())).astype(int)
        return prim.repeat(tuple(int(x) for x in reps)), None
    try:
        s = ase.build.surface(conv, tuple(facet), int(layers), vacuum=8.0, periodic=True)
    except Exception:
        return None, "surface-construction-failed"
    h = heights(s.get_cell())
    reps = np.ceil(need / h).astype(int)
    reps[2] = 1
    s = s.repeat(tuple(int(x) for x in reps))
    if pbcz and gap is not None:
        # thin vacuum: the slab and its periodic image are `gap` apart (centre to centre of the facing atoms); the cell must
        # still be higher than 2*max_cell_size
        s.center(vacuum=gap / 2.0, axis=2)
        if heights(s.get_cell())[2] < 2 * mcs + 0.5:
            return None, "thin-vacuum-cell-too-low"
    elif pbcz and h[2] < 2 * mcs + 0.5:
        s.center(vacuum=(2 * mcs + 1) / 2 + 2, axis=2)
    s.set_pbc([True, True, bool(pbcz)])
    return s, None


def precondition(s, noise, bond_threshold=0.65, overlap_threshold=-0.6, base=0.15):
    """Independent bonding/overlap precondition with safety margin m = base + 2*noise.  None if satisfied, else reason."""
    from ase.data import covalent_radii
    m = base + 2 * noise
    n = len(s)
    if n > 450:
        return "too-big"
    D = s.get_all_distances(mic=True)
    r = covalent_radii[s.get_atomic_numbers()]
    E = D - r[:, None] - r[None, :]
    np.fill_diagonal(E, np.inf)
    if n > 1 and E.min() < overlap_threshold + m:
        return "overlap"
    adj = E <= bond_threshold - m
    seen = {0}
    stack = [0]
    while stack:
        u = stack.pop()
        for v in np.where(adj[u])[0]:
            if int(v) not in seen:
                seen.add(int(v))
                stack.append(int(v))
    if len(seen) != n:
        return "not-bonded-with-margin"
    return None


def image_clearance(s):
    """smallest radius-corrected distance between a slab (periodic along z) and its periodic image along z"""
    from ase.data import covalent_radii
    n = len(s)
    b = s.copy()
    b.translate(np.asarray(s.get_cell())[2])
    both = s + b
    c = np.asarray(s.get_cell()).copy()
    c[2] = c[2] * 4.0
    both.set_cell(c, scale_atoms=False)
    both.set_pbc([True, True, False])
    D = both.get_all_distances(mic=True)[:n, n:]
    r = covalent_radii[s.get_atomic_numbers()]
    return float((D - r[:, None] - r[None, :]).min())


@st.composite
def presentations(draw, permute=True):
    far = draw(st.integers(0, 3)) == 0      # a quarter of the presentations move the crystal far away from its cell (rigid translations are unbounded)
    if far:
        # Hypothesis' floats cluster around small "simple" values: the far components are built from an explicit magnitude
        tr = st.builds(lambda m, e: m + e, st.sampled_from([-40.0, 25.0, -15.0, 9.0, 0.0, -9.0, 15.0, -25.0, 40.0]), gc.ffloat(-1.0, 1.0))
    else:
        tr = gc.ffloat(-5.0, 5.0)
    return {"quat": draw(st.lists(gc.ffloat(-1.0, 1.0), min_size=4, max_size=4)), "trans": [draw(tr) for _ in range(3)],
            "perm": draw(seeds) if permute else None, "noise_seed": draw(seeds), "sbc_seed": draw(st.integers(0, 10 ** 6)),
            # one presentation in three carries what files and workflows attach to an Atoms object (FixAtoms on a subset, tags, ...)
            "payload": draw(st.one_of(st.none(), st.none(), seeds))}


def present(s, p, noise):
    """rigid rotation + translation + permutation + bounded random displacements; returns (Atoms, permutation new->old)."""
    s = s.copy()
    n = len(s)
    if noise:
        r = np.random.RandomState(p["noise_seed"])
        d = r.normal(size=(n, 3))
        d /= np.linalg.norm(d, axis=1)[:, None]
        s.set_positions(s.get_positions() + d * noise * r.uniform(0, 1, (n, 1)))
    Q = gc.quat_to_rot(p["quat"])
    s.set_cell(np.asarray(s.get_cell()) @ Q.T, scale_atoms=False)
    s.set_positions(s.get_positions() @ Q.T + np.array(p["trans"], float))
    perm = np.arange(n)
    if p.get("perm") is not None:
        perm = np.random.RandomState(p["perm"]).permutation(n)
        s = s[perm]
    if p.get("payload") is not None:
        s.set_constraint()
        gc.attach_payload(s, p["payload"])
    return s, perm
