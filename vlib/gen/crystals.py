"""Space-group crystals (DESIGN 2.3): orbits generated from spglib's Hall-database operations in the standard setting,
special positions from the committed grid-stabiliser catalogue, lattice parameters respecting the crystal system,
plus the `presentations` (rigid motion, permutation, unimodular re-basis, supercell, unwrapping).

Nothing here uses MatID's tables.
"""
import functools
import json
import os
import string

import numpy as np
from hypothesis import strategies as st

from vlib.gen import cells as gc
from vlib.oracles import spgref

LETTERS = string.ascii_lowercase + string.ascii_uppercase
_DATA = os.path.join(os.path.dirname(os.path.dirname(os.path.abspath(__file__))), "data", "catalogue.json")
SPECIES = [3, 6, 8, 12, 14, 16, 22, 26, 29, 33, 38, 47, 50, 56, 74, 79, 82]


@functools.lru_cache(maxsize=None)
def catalogue():
    with open(_DATA) as f:
        d = json.load(f)
    groups = {int(k): v for k, v in d["groups"].items()}
    assert len(groups) == 230 and sum(len(v) for v in groups.values()) == 1731
    return groups


def letters(sg):
    return sorted(catalogue()[int(sg)], key=LETTERS.index)


@functools.lru_cache(maxsize=None)
def dof(sg, letter):
    """Number of free parameters of a Wyckoff position = rank of the averaged linear part of its stabiliser."""
    stab = catalogue()[int(sg)][letter]["stab"]
    if stab is None:
        return 3
    R, _ = spgref.operations(sg)
    A = np.mean([R[o] for o, _ in stab], axis=0)
    return int(np.linalg.matrix_rank(A, tol=1e-9))


def mult(sg, letter):
    return int(catalogue()[int(sg)][letter]["mult"])


def point_on(sg, letter, q):
    stab = catalogue()[int(sg)][letter]["stab"]
    q = np.asarray(q, float)
    if stab is None:
        return q
    return spgref.project(sg, [(o, n) for o, n in stab], q)


# ---------------------------------------------------------------------------------------------------------------
# strategies
# ---------------------------------------------------------------------------------------------------------------

qfloat = gc.ffloat(0.05, 0.95)


@st.composite
def hnf(draw, maxdet=4):
    """Hermite normal form supercell matrix with 1 <= det <= maxdet (rows = new vectors in terms of old)."""
    a = draw(st.integers(1, maxdet))
    c = draw(st.integers(1, max(1, maxdet // a)))
    f = draw(st.integers(1, max(1, maxdet // (a * c))))
    b = draw(st.integers(0, c - 1)) if c > 1 else 0
    d = draw(st.integers(0, f - 1)) if f > 1 else 0
    e = draw(st.integers(0, f - 1)) if f > 1 else 0
    return [[a, 0, 0], [b, c, 0], [d, e, f]]


@st.composite
def presentations(draw, allow_supercell=True, allow_lefthanded=True, identity_ok=True):
    p = {}
    # each component is drawn as an "omit" decision so that Hypothesis' bias towards minimal values includes it
    kinds = [k for k in ["shear", "rot", "trans", "perm", "super", "unwrap", "lh", "origin"] if draw(st.integers(0, 2)) == 0]
    if not identity_ok and not kinds:
        kinds = ["shear"]
    if "shear" in kinds:
        p["shear"] = draw(gc.shears(max_steps=3, max_k=2))
    if "super" in kinds and allow_supercell:
        p["hnf"] = draw(hnf())
    if "rot" in kinds:
        p["quat"] = draw(st.lists(gc.ffloat(-1.0, 1.0), min_size=4, max_size=4))
    if "trans" in kinds:
        p["trans"] = [draw(gc.ffloat(-5.0, 5.0)) for _ in range(3)]
    if "perm" in kinds:
        p["perm"] = draw(st.integers(0, 2 ** 32 - 1))
    if "unwrap" in kinds:
        p["unwrap"] = draw(st.integers(0, 2 ** 32 - 1))
    if "lh" in kinds and allow_lefthanded:
        p["lefthanded"] = True
    if "origin" in kinds:
        # origin moved by special fractions of the standard cell (1/2, 1/3, 1/4 ...): permutes equivalent Wyckoff sites
        p["origin12"] = [draw(st.sampled_from([6, 0, 4, 3, 8, 9, 2, 1])) for _ in range(3)]
    return p


@st.composite
def crystal_descs(draw, sgs=None, max_orbits=3, force_letters=None, anchor=None, species=None, salt=0, only_fixed=False):
    sg = draw(st.integers(1, 230)) if sgs is None else draw(st.sampled_from(list(sgs)))
    ls = letters(sg)
    if only_fixed:
        fixed = [l for l in ls if dof(sg, l) == 0]
        if fixed:
            ls = fixed
            anchor = False
    cm = spgref.CENTRING_MULT[spgref.centring(sg)]
    n_orb = draw(st.integers(1, max_orbits)) if not force_letters else len(force_letters)
    orbits = []
    used0 = set()
    budget = 120 * cm       # atoms in the conventional cell; primitive reduction is applied when large
    picks = list(force_letters) if force_letters else []
    while len(picks) < n_orb:
        picks.append(draw(st.sampled_from(ls)))
    # a general-position anchor orbit pins the intended group (otherwise special positions alone are usually promoted
    # to a supergroup); drawn as "no_anchor" so that Hypothesis' bias towards False keeps the anchor in most cases
    if anchor is None:
        no_anchor = draw(st.integers(0, 3)) == 3
    else:
        no_anchor = not anchor
    if not no_anchor and letters(sg)[-1] not in picks:
        picks.append(letters(sg)[-1])
    if species is not None:
        zs = list(species)[:len(picks)]
    else:
        zs = draw(st.lists(st.sampled_from(SPECIES), min_size=len(picks), max_size=len(picks)))
    for l, z in zip(picks, zs):
        if dof(sg, l) == 0:
            if l in used0:
                continue
            used0.add(l)
        m = mult(sg, l)
        if m > budget and orbits:
            continue
        budget -= m
        k0 = 3 * len(orbits) + 24 * salt
        orbits.append({"letter": l, "q": [gc.generic(draw, k0 + j, 0.05, 0.95) for j in range(3)], "Z": z})
    raw = [gc.generic(draw, 17 + j + 24 * salt, 3.5, 9.0) for j in range(3)] + [gc.generic(draw, 20 + j + 24 * salt, 75.0, 105.0) for j in range(3)]
    if orbits and draw(st.integers(0, 5)) == 0:
        # boundary values of the free parameters: one orbit gets every free parameter exactly 0 (an atom at the origin of a polar
        # axis / plane, as ase.build.bulk("ZnS", "wurtzite") has) - the lower end of the documented range [0, 1)
        orbits[draw(st.integers(0, len(orbits) - 1))]["q"] = [0.0, 0.0, 0.0]
    d = {"sg": sg, "orbits": orbits, "raw": raw}
    if draw(st.integers(0, 4)) == 0:
        # metric pseudo-symmetry: the free angles of the crystal system are 90 deg +- a little, the free lengths nearly equal
        # (beta = 90.2 deg monoclinic, nearly tetragonal orthorhombic ...) while the atoms keep the low symmetry
        d["pseudo"] = {"dang": draw(st.sampled_from([0.05, 0.2, 0.6, 0.003, -0.05, -0.3])), "dlen": draw(st.sampled_from([1e-3, 1e-4, 5e-3, -1e-3]))}
    if spgref.centring(sg) != "P" and draw(st.integers(0, 2)) == 0:
        d["prim"] = True      # describe the crystal in a primitive cell of its centred lattice (supercells of it are then
    return d                  # smaller than the conventional cell)


@functools.lru_cache(maxsize=None)
def partner_classes():
    """groups -> lists of special letters with free parameters that share (multiplicity, degrees of freedom): candidates for
    being exchanged by a normalizer (computed from the catalogue only, independent of MatID's normalizer table)."""
    out = {}
    for sg in range(1, 231):
        cls = {}
        for l in letters(sg)[:-1]:
            if dof(sg, l) > 0:
                cls.setdefault((mult(sg, l), dof(sg, l)), []).append(l)
        good = [v for v in cls.values() if len(v) >= 2]
        if good:
            out[sg] = good
    return out


@st.composite
def shared_letter_descs(draw):
    """Two different species on ONE Wyckoff letter plus a third species on a candidate partner letter, in a drawn orbit order:
    the normal form must count atoms per (letter, species), whatever order the atoms are listed in."""
    pc = partner_classes()
    sg = draw(st.sampled_from(sorted(pc)))
    cl = draw(st.sampled_from(pc[sg]))
    l1 = draw(st.sampled_from(cl))
    l2 = draw(st.sampled_from([l for l in cl if l != l1]))
    zs = sorted(draw(st.lists(st.sampled_from(SPECIES), min_size=3, max_size=3, unique=True)))
    if draw(st.booleans()):
        roles = draw(st.permutations([(l1, zs[0]), (l1, zs[2]), (l2, zs[1])]))
    else:
        # ONE element spread unequally over the two letters (two orbits on l1, one on l2): the normal form has to pick the
        # description with the larger count on the earlier letter
        roles = draw(st.permutations([(l1, zs[1]), (l1, zs[1]), (l2, zs[1])]))
    if draw(st.booleans()):
        roles = list(roles) + [(letters(sg)[-1], draw(st.sampled_from(SPECIES)))]
    orbits = []
    for k, (l, z) in enumerate(roles):
        orbits.append({"letter": l, "q": [gc.generic(draw, 3 * k + j, 0.05, 0.95) for j in range(3)], "Z": int(z)})
    raw = [gc.generic(draw, 17 + j, 3.5, 9.0) for j in range(3)] + [gc.generic(draw, 20 + j, 75.0, 105.0) for j in range(3)]
    return {"sg": sg, "orbits": orbits, "raw": raw}


# ---------------------------------------------------------------------------------------------------------------
# construction
# ---------------------------------------------------------------------------------------------------------------

PRIM = {
    "A": np.array([[1, 0, 0], [0, 0.5, -0.5], [0, 0.5, 0.5]]),
    "B": np.array([[0.5, 0, -0.5], [0, 1, 0], [0.5, 0, 0.5]]),
    "C": np.array([[0.5, 0.5, 0], [-0.5, 0.5, 0], [0, 0, 1]]),
    "I": np.array([[-0.5, 0.5, 0.5], [0.5, -0.5, 0.5], [0.5, 0.5, -0.5]]),
    "F": np.array([[0, 0.5, 0.5], [0.5, 0, 0.5], [0.5, 0.5, 0]]),
    "R": np.array([[2 / 3, 1 / 3, 1 / 3], [-1 / 3, 1 / 3, 1 / 3], [-1 / 3, -2 / 3, 1 / 3]]),
}


def dedupe(frac, Z, tol=1e-6):
    keep = []
    for i in range(len(frac)):
        dup = False
        for j in keep:
            if Z[i] == Z[j] and np.abs(spgref.wrapd(frac[i] - frac[j])).max() < tol:
                dup = True
                break
        if not dup:
            keep.append(i)
    return np.array(keep, int)


def _shifted_q(q, k, j):
    """deterministic alternative parameters for retry j of orbit k (still generic, still a function of the descriptor only)"""
    if j == 0:
        return q
    return [0.05 + 0.9 * (((x - 0.05) / 0.9 + gc.PHI[(3 * k + i + 7 * j) % len(gc.PHI)]) % 1.0) for i, x in enumerate(q)]


def build_standard(desc, primitive="auto", retry=0):
    """(cell rows, fractional positions, numbers) of the crystal in the standard setting (conventional cell, or a
    primitive cell of it when that is needed to stay below 120 atoms)."""
    sg = desc["sg"]
    R, t = spgref.operations(sg)
    raw = list(desc["raw"])
    if desc.get("pseudo"):
        da, dl = float(desc["pseudo"]["dang"]), float(desc["pseudo"]["dlen"])
        raw = [raw[0], raw[0] * (1.0 + dl), raw[0] * (1.0 - 2.0 * dl), 90.0 + da, 90.0 + 0.7 * da if spgref.crystal_system(sg) == "monoclinic" else 90.0 - 0.7 * da, 90.0 + 1.3 * da]
    cell = gc.cellpar_to_cell(*spgref.lattice_cellpar(sg, raw))
    pts, nums = [], []
    for k, o in enumerate(desc["orbits"]):
        p = point_on(sg, o["letter"], _shifted_q(o["q"], k, retry))
        ob = spgref.orbit(R, t, p)
        pts.append(ob)
        nums += [o["Z"]] * len(ob)
    frac = np.vstack(pts) % 1.0
    nums = np.array(nums, int)
    c = spgref.centring(sg)
    if c != "P" and (primitive is True or desc.get("prim") or (primitive == "auto" and len(nums) > 60)):
        P = PRIM[c]
        pc = P @ cell                      # rows: primitive vectors
        f2 = (frac @ cell) @ np.linalg.inv(pc)
        f2 %= 1.0
        k = dedupe(f2, nums)
        cell, frac, nums = pc, f2[k], nums[k]
    return cell, frac, nums


def min_distance(cell, frac, cap=12):
    from vlib.oracles.mic import pair_table
    n = len(frac)
    if n == 1:
        return float(np.linalg.norm(cell, axis=1).min())
    pos = frac @ cell
    _, _, d, _ = pair_table(pos, cell, [True, True, True])
    d = d + np.eye(n) * 1e9
    return float(min(d.min(), np.linalg.norm(cell, axis=1).min()))


def apply_presentation(cell, frac, nums, p):
    """Returns (cell, cartesian positions, numbers) of the same crystal in another description."""
    cell = np.array(cell, float)
    frac = np.array(frac, float)
    nums = np.array(nums, int)
    if p.get("origin12") is not None:
        frac = frac + np.array(p["origin12"], float) / 12.0
    if p.get("hnf") is not None:
        H = np.array(p["hnf"], int)
        det = int(round(np.linalg.det(H)))
        if det > 1:
            newcell = H @ cell
            # coset representatives of Z^3 / (rows of H): the diagonal box of the lower-triangular HNF
            inv = np.linalg.inv(H.astype(float))
            shifts = [[i, j, k] for i in range(H[0, 0]) for j in range(H[1, 1]) for k in range(H[2, 2])]
            assert len(shifts) == det
            allf = np.vstack([(frac + np.array(s)) @ inv for s in shifts]) % 1.0
            nums = np.tile(nums, det)
            cell, frac = newcell, allf
    if p.get("shear") is not None:
        M = np.array(p["shear"], int)
        newcell = M @ cell
        frac = (frac @ cell) @ np.linalg.inv(newcell)
        cell = newcell
    if p.get("unwrap") is not None:
        r = np.random.RandomState(p["unwrap"] % (2 ** 32))   # deterministic function of a Hypothesis-drawn integer
        frac = frac % 1.0 + r.randint(-2, 3, size=frac.shape)
    else:
        frac = frac % 1.0
    if p.get("perm") is not None:
        r = np.random.RandomState(p["perm"] % (2 ** 32))
        idx = r.permutation(len(nums))
        frac, nums = frac[idx], nums[idx]
    if p.get("lefthanded"):
        cell = cell[[1, 0, 2]]
        frac = frac[:, [1, 0, 2]]
    pos = frac @ cell
    if p.get("quat") is not None:
        Q = gc.quat_to_rot(p["quat"])
        cell = cell @ Q.T
        pos = pos @ Q.T
    if p.get("trans") is not None:
        pos = pos + np.array(p["trans"], float)
    return cell, pos, nums


def pres_labels(p):
    ks = [k for k in ("hnf", "shear", "quat", "trans", "perm", "unwrap", "lefthanded", "origin12") if p.get(k) is not None]
    return ["pres:" + k for k in ks] if ks else ["pres:identity"]


def pres_class(p):
    ks = [k for k in ("hnf", "shear", "quat", "trans", "perm", "unwrap", "lefthanded") if p.get(k) is not None]
    return "+".join(ks) if ks else "identity"


def make_atoms(cell, pos, nums):
    from ase import Atoms
    return Atoms(numbers=nums, positions=pos, cell=cell, pbc=True)


def conditioned(desc, rescale=True):
    """Standard-setting crystal with the near-collision rule of DESIGN 2.3 applied.
    Returns (cell, frac, nums, status) with status in {'ok','too-close','too-big'}."""
    status = "too-close"
    for retry in range(5):
        cell, frac, nums = build_standard(desc, retry=retry)
        if len(nums) > 120:
            return cell, frac, nums, "too-big"
        vpa = abs(np.linalg.det(cell)) / len(nums)
        if vpa < 12.0:                       # by construction: at least 12 A^3 per atom, so that density alone never rejects
            cell = cell * (12.0 / vpa) ** (1.0 / 3.0)
        d = min_distance(cell, frac)
        if d < 0.5:
            continue                         # near-collision: try the next deterministic alternative of the free parameters
        if d < 1.0 and rescale:
            cell = cell * (1.0 / d)
        return cell, frac, nums, "ok"
    return cell, frac, nums, status


def spglib_group(cell, pos_or_frac, nums, symprec, cartesian=True):
    import spglib
    cell = np.asarray(cell, float)
    frac = np.linalg.solve(cell.T, np.asarray(pos_or_frac, float).T).T if cartesian else np.asarray(pos_or_frac, float)
    return spglib.get_symmetry_dataset((cell, frac, nums), symprec=symprec)


def well_conditioned(cell, pos, nums, scale=1.0, also=()):
    """spglib reports the same group at 1e-4 and 1e-2 (a 100x window around MatID's 1e-3) - both times the crystal's length
    scale - and at every tolerance listed in `also`.  Returns dataset at the tight tolerance or None."""
    d1 = spglib_group(cell, pos, nums, 1e-4 * scale)
    d2 = spglib_group(cell, pos, nums, 1e-2 * scale)
    if d1 is None or d2 is None or d1.number != d2.number:
        return None
    for t in also:
        d3 = spglib_group(cell, pos, nums, t)
        if d3 is None or d3.number != d1.number:
            return None
    return d1
