// Minimal stand-in for the subset of pybind11/numpy.h used by matid/ext/{geometry,celllist}.cpp
#pragma once
#include <vector>
#include <memory>
#include <initializer_list>
#include <cstddef>
#include <cmath>
#include <stdexcept>
#include <unordered_map>
#include <tuple>
#include <string>
#include <algorithm>
#include <limits>
namespace pybind11 {
typedef std::ptrdiff_t ssize_t;
template <typename T, int N> struct uref {
    const T* d; const ssize_t* s;
    const T& operator()(ssize_t i) const { return d[i]; }
    const T& operator()(ssize_t i, ssize_t j) const { return d[i*s[1]+j]; }
    const T& operator()(ssize_t i, ssize_t j, ssize_t k) const { return d[(i*s[1]+j)*s[2]+k]; }
    ssize_t shape(int i) const { return s[i]; }
};
template <typename T, int N> struct mref {
    T* d; const ssize_t* s;
    T& operator()(ssize_t i) const { return d[i]; }
    T& operator()(ssize_t i, ssize_t j) const { return d[i*s[1]+j]; }
    T& operator()(ssize_t i, ssize_t j, ssize_t k) const { return d[(i*s[1]+j)*s[2]+k]; }
    ssize_t shape(int i) const { return s[i]; }
};
template <typename T> class array_t {
  public:
    std::shared_ptr<std::vector<T>> own; T* ptr = nullptr; std::vector<ssize_t> shp;
    array_t() {}
    array_t(std::initializer_list<ssize_t> shape) : shp(shape) { alloc(); }
    array_t(std::initializer_list<int> shape) { for (int x : shape) shp.push_back(x); alloc(); }
    array_t(T* external, std::vector<ssize_t> shape) : ptr(external), shp(shape) {}
    void alloc() { ssize_t n = 1; for (auto x : shp) n *= x; own = std::make_shared<std::vector<T>>(n); ptr = own->data(); }
    ssize_t size() const { ssize_t n = 1; for (auto x : shp) n *= x; return n; }
    ssize_t shape(int i) const { return shp[i]; }
    template <int N> uref<T, N> unchecked() const { return uref<T, N>{ptr, shp.data()}; }
    template <int N> mref<T, N> mutable_unchecked() { return mref<T, N>{ptr, shp.data()}; }
};
}
