// libFuzzer target over the repository's unmodified geometry.cpp / celllist.cpp (compiled against fake_pybind).
// The byte string is decoded into (cell, pbc, atoms inside the cell, extension, cutoff, query point); the semantic
// oracles of C10 (displacement tensor) and C16 (extended system, neighbour query) are evaluated INSIDE the target by
// brute-force image enumeration.  A violated oracle prints "ORACLE <property> <clause> ..." and aborts, so that
// libFuzzer saves the input; ASan/UBSan turn memory errors into failures as well.
#include "geometry.h"
#include "celllist.h"
#include <fuzzer/FuzzedDataProvider.h>
#include <cmath>
#include <cstdio>
#include <cstdlib>
#include <set>
#include <tuple>
#include <limits>
namespace py = pybind11;

static void fail(const char* prop, const char* clause, const char* msg) {
    fprintf(stderr, "ORACLE %s %s %s\n", prop, clause, msg);
    abort();
}
static inline double dot3(const double* a, const double* b) { return a[0]*b[0]+a[1]*b[1]+a[2]*b[2]; }
static inline void cross3(const double* a, const double* b, double* c) { c[0]=a[1]*b[2]-a[2]*b[1]; c[1]=a[2]*b[0]-a[0]*b[2]; c[2]=a[0]*b[1]-a[1]*b[0]; }

extern "C" int LLVMFuzzerTestOneInput(const uint8_t* data, size_t size) {
    FuzzedDataProvider fdp(data, size);
    const int n = fdp.ConsumeIntegralInRange<int>(1, 6);
    double cell[9]; bool pbc[3];
    // lower-triangular-ish random cell with optional integer shear, so that skewed bases are reached quickly
    for (int i = 0; i < 9; ++i) cell[i] = fdp.ConsumeFloatingPointInRange<double>(-7.0, 7.0);
    int shear[3] = { fdp.ConsumeIntegralInRange<int>(-2, 2), fdp.ConsumeIntegralInRange<int>(-2, 2), fdp.ConsumeIntegralInRange<int>(-2, 2) };
    for (int m = 0; m < 3; ++m) { cell[m] += shear[0]*cell[3+m]; cell[6+m] += shear[1]*cell[m]; cell[3+m] += shear[2]*cell[6+m]; }
    double cr[3][3]; cross3(cell+3, cell+6, cr[0]); cross3(cell+6, cell, cr[1]); cross3(cell, cell+3, cr[2]);
    const double det = dot3(cell, cr[0]);
    if (std::fabs(det) < 0.5) return 0;
    double h[3]; for (int i = 0; i < 3; ++i) h[i] = std::fabs(det) / std::sqrt(dot3(cr[i], cr[i]));
    for (int i = 0; i < 3; ++i) pbc[i] = fdp.ConsumeBool();
    std::vector<double> pos(3*n); std::vector<int> num(n, 1);
    for (int a = 0; a < n; ++a) { double u[3]; for (int i = 0; i < 3; ++i) u[i] = fdp.ConsumeFloatingPointInRange<double>(0.0, 0.999999);
        for (int m = 0; m < 3; ++m) pos[3*a+m] = u[0]*cell[m] + u[1]*cell[3+m] + u[2]*cell[6+m]; }
    const double ext = fdp.ConsumeFloatingPointInRange<double>(0.2, 4.0);
    const double cut = fdp.ConsumeFloatingPointInRange<double>(0.2, 4.0);
    const bool unbounded = fdp.ConsumeIntegralInRange<int>(0, 4) == 0;
    double qu[3]; for (int i = 0; i < 3; ++i) qu[i] = fdp.ConsumeFloatingPointInRange<double>(0.0, 0.999999);
    double q[3]; for (int m = 0; m < 3; ++m) q[m] = qu[0]*cell[m] + qu[1]*cell[3+m] + qu[2]*cell[6+m];
    // bound the cost: image counts grow with (cutoff / cell height)
    double maxlen = 0; for (int i = 0; i < 3; ++i) if (pbc[i]) maxlen = std::max(maxlen, std::sqrt(dot3(cell+3*i, cell+3*i)));
    const double big = std::max(std::max(ext, cut), unbounded ? maxlen : 0.0);
    int K[3]; double total = n;
    for (int i = 0; i < 3; ++i) { K[i] = pbc[i] ? (int)std::ceil(big / h[i]) + 1 : 0; if (K[i] > 8) return 0; total *= (2*K[i]+1); }
    if (total > 60000) return 0;

    py::array_t<double> P(pos.data(), {n, 3}); py::array_t<int> Z(num.data(), {n}); py::array_t<double> C(cell, {3, 3}); py::array_t<bool> B(pbc, {3});
    const double tol = 1e-9 * (1.0 + big + 30.0);

    // ---------------- C16: extended system ----------------------------------------------------------------------
    ExtendedSystem e = extend_system(P, Z, C, B, ext);
    const py::ssize_t ne = e.indices.size();
    auto ep = e.positions.unchecked<2>(); auto ei = e.indices.unchecked<1>(); auto ef = e.factors.unchecked<2>();
    if (ne < n) fail("C16", "originals-first", "fewer entries than atoms");
    std::set<std::tuple<int,int,int,int>> keys;
    for (py::ssize_t k = 0; k < ne; ++k) {
        const int io = ei(k);
        if (io < 0 || io >= n) fail("C16", "index-range", "bad original index");
        double f[3] = { ef(k,0), ef(k,1), ef(k,2) };
        for (int i = 0; i < 3; ++i) { if (f[i] != std::rint(f[i])) fail("C16", "integer-offsets", "non-integer offset"); if (!pbc[i] && f[i] != 0) fail("C16", "offset-nonperiodic-zero", "offset along non-periodic axis"); }
        for (int m = 0; m < 3; ++m) { double want = pos[3*io+m] + f[0]*cell[m] + f[1]*cell[3+m] + f[2]*cell[6+m]; if (std::fabs(want - ep(k,m)) > tol) fail("C16", "genuine-image", "position != original + offset.cell"); }
        if (k < n && (io != k || f[0] != 0 || f[1] != 0 || f[2] != 0)) fail("C16", "originals-first", "first n entries are not the originals");
        if (!keys.insert(std::make_tuple(io, (int)f[0], (int)f[1], (int)f[2])).second) fail("C16", "exactly-once", "duplicate image");
    }
    // sound completeness: an image whose distance to the clamped point of the cell is < ext must be present
    const double inv = 1.0 / det;
    for (int a = 0; a < n; ++a) for (int i = -K[0]; i <= K[0]; ++i) for (int j = -K[1]; j <= K[1]; ++j) for (int k = -K[2]; k <= K[2]; ++k) {
        double p[3]; for (int m = 0; m < 3; ++m) p[m] = pos[3*a+m] + i*cell[m] + j*cell[3+m] + k*cell[6+m];
        double u[3] = { dot3(p, cr[0])*inv, dot3(p, cr[1])*inv, dot3(p, cr[2])*inv };
        double c[3]; for (int t = 0; t < 3; ++t) c[t] = std::min(1.0, std::max(0.0, u[t]));
        double d2 = 0; for (int m = 0; m < 3; ++m) { double x = c[0]*cell[m] + c[1]*cell[3+m] + c[2]*cell[6+m] - p[m]; d2 += x*x; }
        if (std::sqrt(d2) <= ext - 1e-7 && !keys.count(std::make_tuple(a, i, j, k))) fail("C16", "complete-extension", "image within the extension of the cell is missing");
    }
    // ---------------- C16: neighbour query ---------------------------------------------------------------------------
    {
        CellList cl = get_cell_list(P, C, B, ext, cut);
        CellListResult r = cl.get_neighbours_for_position(q[0], q[1], q[2]);
        std::set<std::tuple<int,int,int,int>> got;
        for (size_t t = 0; t < r.indices.size(); ++t) {
            const int io = r.indices_original[t]; const std::vector<double>& f = r.factors[t];
            double d2 = 0; for (int m = 0; m < 3; ++m) { double pm = pos[3*io+m] + f[0]*cell[m] + f[1]*cell[3+m] + f[2]*cell[6+m]; double x = q[m] - pm; if (std::fabs(x - r.displacements[t][m]) > tol) fail("C16", "query-exact", "displacement wrong"); d2 += x*x; }
            if (std::fabs(std::sqrt(d2) - r.distances[t]) > tol) fail("C16", "query-exact", "distance wrong");
            if (std::sqrt(d2) > cut + 1e-7) fail("C16", "query-beyond-cutoff", "neighbour beyond cutoff");
            if (!keys.count(std::make_tuple(io, (int)f[0], (int)f[1], (int)f[2]))) fail("C16", "query-entry", "neighbour not in the extended system");
            got.insert(std::make_tuple(io, (int)f[0], (int)f[1], (int)f[2]));
        }
        for (py::ssize_t k = 0; k < ne; ++k) { double d2 = 0; for (int m = 0; m < 3; ++m) { double x = ep(k,m) - q[m]; d2 += x*x; }
            if (std::sqrt(d2) <= cut - 1e-7 && !got.count(std::make_tuple(ei(k), (int)ef(k,0), (int)ef(k,1), (int)ef(k,2)))) fail("C16", "query-complete", "image within cutoff not returned"); }
    }
    // ---------------- C10: displacement tensor ---------------------------------------------------------------------------
    {
        const double inf = std::numeric_limits<double>::infinity();
        const double cutoff = unbounded ? inf : cut;
        std::vector<double> D(n*n*3, inf), R(n*n, inf), F(n*n*3, inf);
        py::array_t<double> Da(D.data(), {n, n, 3}), Ra(R.data(), {n, n}), Fa(F.data(), {n, n, 3});
        get_displacement_tensor(Da, Ra, Fa, P, C, B, cutoff, true, true);
        const double limit = unbounded ? (maxlen > 0 ? maxlen : inf) : cut;
        for (int i = 0; i < n; ++i) for (int j = 0; j < n; ++j) {
            double dm = inf;   // brute-force minimum image
            for (int a = -K[0]; a <= K[0]; ++a) for (int b = -K[1]; b <= K[1]; ++b) for (int c = -K[2]; c <= K[2]; ++c) {
                double d2 = 0; for (int m = 0; m < 3; ++m) { double x = pos[3*i+m] - pos[3*j+m] - a*cell[m] - b*cell[3+m] - c*cell[6+m]; d2 += x*x; }
                dm = std::min(dm, std::sqrt(d2)); }
            const double r = R[i*n+j];
            if (i == j) { if (r != 0) fail("C10", "zero-diagonal", "diagonal not zero"); continue; }
            if (std::isfinite(r)) {
                double f[3] = { F[(i*n+j)*3], F[(i*n+j)*3+1], F[(i*n+j)*3+2] }; double d2 = 0;
                for (int t = 0; t < 3; ++t) { if (f[t] != std::rint(f[t])) fail("C10", "integer-factors", "non-integer factor"); if (!pbc[t] && f[t] != 0) fail("C10", "factors-nonperiodic-zero", "factor along non-periodic axis"); }
                for (int m = 0; m < 3; ++m) { double x = pos[3*i+m] - pos[3*j+m] - f[0]*cell[m] - f[1]*cell[3+m] - f[2]*cell[6+m]; if (std::fabs(x - D[(i*n+j)*3+m]) > tol) fail("C10", "genuine-image", "displacement != r_i - r_j - factor.cell"); d2 += x*x; }
                if (std::fabs(std::sqrt(d2) - r) > tol) fail("C10", "distance-is-norm", "distance != |displacement|");
                if (r < dm - tol) fail("C10", "never-shorter-than-mic", "shorter than the minimum image");
                if (R[j*n+i] != r) fail("C10", "symmetry", "distance table not symmetric");
                if (!unbounded && dm > cut + 1e-7) fail("C10", "beyond-cutoff-inf", "pair beyond the cutoff reported finite");
            } else {
                if (unbounded) fail("C10", "unbounded-no-inf", "infinite entry with unbounded cutoff");
            }
            if (std::fabs(dm - limit) > 1e-7 && dm <= limit - 1e-7) {
                if (!std::isfinite(r)) { if (!unbounded) fail("C10", "complete-within-cutoff", "pair within the cutoff reported infinite"); }
                else if (std::fabs(r - dm) > tol) fail("C10", "exact-within-range", "not the minimum image within range");
            }
        }
    }
    return 0;
}
