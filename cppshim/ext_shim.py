"""ctypes stand-in for ``matid.ext`` built from the *current* C++ sources (see DESIGN 2.6).

Same Python-visible API as the pybind11 module: extend_system, get_cell_list,
get_displacement_tensor, CellList, ExtendedSystem, CellListResult.
"""
import ctypes
import numpy as np

_dp = ctypes.POINTER(ctypes.c_double)
_ip = ctypes.POINTER(ctypes.c_int)
_bp = ctypes.POINTER(ctypes.c_bool)
_L = None


def _load(path):
    global _L
    L = ctypes.CDLL(path)
    L.ms_last_error.restype = ctypes.c_char_p
    L.ms_extend_system.restype = ctypes.c_void_p
    L.ms_extend_system.argtypes = [_dp, _ip, ctypes.c_int, _dp, _bp, ctypes.c_double, ctypes.POINTER(ctypes.c_long)]
    L.ms_ext_copy.argtypes = [ctypes.c_void_p, _dp, _ip, _ip, _dp]
    L.ms_ext_free.argtypes = [ctypes.c_void_p]
    L.ms_displacement_tensor.argtypes = [_dp, _dp, _dp, _dp, ctypes.c_int, _dp, _bp, ctypes.c_double, ctypes.c_int, ctypes.c_int]
    L.ms_displacement_tensor.restype = ctypes.c_int
    L.ms_get_cell_list.restype = ctypes.c_void_p
    L.ms_get_cell_list.argtypes = [_dp, ctypes.c_int, _dp, _bp, ctypes.c_double, ctypes.c_double]
    L.ms_cl_new.restype = ctypes.c_void_p
    L.ms_cl_new.argtypes = [_dp, _ip, _dp, ctypes.c_int, ctypes.c_double]
    L.ms_cl_free.argtypes = [ctypes.c_void_p]
    L.ms_cl_query_pos.restype = ctypes.c_void_p
    L.ms_cl_query_pos.argtypes = [ctypes.c_void_p, ctypes.c_double, ctypes.c_double, ctypes.c_double, ctypes.POINTER(ctypes.c_long)]
    L.ms_cl_query_idx.restype = ctypes.c_void_p
    L.ms_cl_query_idx.argtypes = [ctypes.c_void_p, ctypes.c_int, ctypes.POINTER(ctypes.c_long)]
    L.ms_res_copy.argtypes = [ctypes.c_void_p, _ip, _dp, _dp, _dp, _ip, _dp]
    L.ms_res_free.argtypes = [ctypes.c_void_p]
    _L = L


def _raise():
    msg = _L.ms_last_error().decode()
    if msg.startswith("V"):
        raise ValueError(msg[1:])
    raise RuntimeError(msg[1:])


def _f(a, shape=None):
    a = np.ascontiguousarray(np.asarray(a), dtype=np.float64)
    if shape is not None and a.shape != shape:
        raise TypeError("incompatible shape %s, expected %s" % (a.shape, shape))
    return a


def _b(a):
    return np.ascontiguousarray(np.asarray(a), dtype=np.bool_)


class ExtendedSystem:
    pass


class CellListResult:
    pass


def extend_system(positions, atomic_numbers, cell, pbc, cutoff):
    P = _f(positions); Z = np.ascontiguousarray(np.asarray(atomic_numbers), dtype=np.int32)
    C = _f(cell, (3, 3)); B = _b(pbc); n = ctypes.c_long(0)
    h = _L.ms_extend_system(P.ctypes.data_as(_dp), Z.ctypes.data_as(_ip), len(Z), C.ctypes.data_as(_dp), B.ctypes.data_as(_bp), float(cutoff), ctypes.byref(n))
    if not h:
        _raise()
    m = n.value
    pos = np.empty((m, 3)); num = np.empty(m, np.int32); idx = np.empty(m, np.int32); fac = np.empty((m, 3))
    _L.ms_ext_copy(h, pos.ctypes.data_as(_dp), num.ctypes.data_as(_ip), idx.ctypes.data_as(_ip), fac.ctypes.data_as(_dp))
    _L.ms_ext_free(h)
    e = ExtendedSystem(); e.positions = pos; e.atomic_numbers = num; e.indices = idx; e.factors = fac
    return e


def get_displacement_tensor(disp, dist, fac, positions, cell, pbc, cutoff, return_factors, return_distances):
    for a in (disp, dist, fac):
        if not (isinstance(a, np.ndarray) and a.dtype == np.float64 and a.flags.c_contiguous):
            raise TypeError("output arrays must be C-contiguous float64")
    P = _f(positions); C = _f(cell, (3, 3)); B = _b(pbc)
    rc = _L.ms_displacement_tensor(disp.ctypes.data_as(_dp), dist.ctypes.data_as(_dp), fac.ctypes.data_as(_dp), P.ctypes.data_as(_dp), P.shape[0], C.ctypes.data_as(_dp), B.ctypes.data_as(_bp), float(cutoff), int(bool(return_factors)), int(bool(return_distances)))
    if rc:
        _raise()


class CellList:
    def __init__(self, positions=None, indices=None, factors=None, cutoff=None, _handle=None):
        if _handle is not None:
            self._h = _handle
            return
        P = _f(positions); I = np.ascontiguousarray(np.asarray(indices), dtype=np.int32); F = _f(factors)
        self._h = _L.ms_cl_new(P.ctypes.data_as(_dp), I.ctypes.data_as(_ip), F.ctypes.data_as(_dp), len(I), float(cutoff))
        if not self._h:
            _raise()

    def __del__(self):
        h = getattr(self, "_h", None)
        if h and _L is not None:
            _L.ms_cl_free(h)
            self._h = None

    def _result(self, r, n):
        if not r:
            _raise()
        m = n.value
        ind = np.empty(m, np.int32); io = np.empty(m, np.int32); d = np.empty(m); d2 = np.empty(m); disp = np.empty((m, 3)); fac = np.empty((m, 3))
        _L.ms_res_copy(r, ind.ctypes.data_as(_ip), d.ctypes.data_as(_dp), d2.ctypes.data_as(_dp), disp.ctypes.data_as(_dp), io.ctypes.data_as(_ip), fac.ctypes.data_as(_dp))
        _L.ms_res_free(r)
        out = CellListResult()
        out.indices = ind.tolist(); out.indices_original = io.tolist(); out.distances = d.tolist(); out.distances_squared = d2.tolist()
        out.displacements = disp.tolist(); out.factors = fac.tolist()
        return out

    def get_neighbours_for_position(self, x, y, z):
        n = ctypes.c_long(0)
        return self._result(_L.ms_cl_query_pos(self._h, float(x), float(y), float(z), ctypes.byref(n)), n)

    def get_neighbours_for_index(self, i):
        n = ctypes.c_long(0)
        return self._result(_L.ms_cl_query_idx(self._h, int(i), ctypes.byref(n)), n)


def get_cell_list(positions, cell, pbc, extension, cutoff):
    P = _f(positions); C = _f(cell, (3, 3)); B = _b(pbc)
    h = _L.ms_get_cell_list(P.ctypes.data_as(_dp), P.shape[0], C.ctypes.data_as(_dp), B.ctypes.data_as(_bp), float(extension), float(cutoff))
    if not h:
        _raise()
    return CellList(_handle=h)
