// extern "C" facade over the repository's unmodified geometry.cpp / celllist.cpp,
// compiled against fake_pybind/pybind11/numpy.h.  Used through ctypes by ext_shim.py
// whenever the C++ sources differ from the ones the in-tree matid.ext was built from.
#include "geometry.h"
#include "celllist.h"
#include <cstring>
#include <string>
namespace py = pybind11;
static thread_local std::string g_err;
#define TRY try { g_err.clear();
#define CATCH(fail) } catch (const std::invalid_argument& e) { g_err = std::string("V") + e.what(); return fail; } catch (const std::exception& e) { g_err = std::string("R") + e.what(); return fail; }
extern "C" {
const char* ms_last_error() { return g_err.c_str(); }
struct ExtH { ExtendedSystem s; };
void* ms_extend_system(double* pos, int* num, int n, double* cell, bool* pbc, double cutoff, long* n_out) {
    TRY
    py::array_t<double> P(pos, {n, 3}); py::array_t<int> Z(num, {n}); py::array_t<double> C(cell, {3, 3}); py::array_t<bool> B(pbc, {3});
    ExtH* h = new ExtH{extend_system(P, Z, C, B, cutoff)};
    *n_out = (long)h->s.indices.size();
    return h; CATCH(nullptr)
}
void ms_ext_copy(void* hv, double* pos, int* num, int* idx, double* fac) {
    ExtH* h = (ExtH*)hv; size_t n = h->s.indices.size();
    memcpy(pos, h->s.positions.ptr, sizeof(double)*3*n); memcpy(num, h->s.atomic_numbers.ptr, sizeof(int)*n);
    memcpy(idx, h->s.indices.ptr, sizeof(int)*n); memcpy(fac, h->s.factors.ptr, sizeof(double)*3*n);
}
void ms_ext_free(void* hv) { delete (ExtH*)hv; }
int ms_displacement_tensor(double* disp, double* dist, double* fac, double* pos, int n, double* cell, bool* pbc, double cutoff, int rf, int rd) {
    TRY
    py::array_t<double> D(disp, {n, n, 3}), R(dist, {n, n}), F(fac, {n, n, 3}), P(pos, {n, 3}), C(cell, {3, 3}); py::array_t<bool> B(pbc, {3});
    get_displacement_tensor(D, R, F, P, C, B, cutoff, rf != 0, rd != 0);
    return 0; CATCH(1)
}
void* ms_get_cell_list(double* pos, int n, double* cell, bool* pbc, double extension, double cutoff) {
    TRY
    py::array_t<double> P(pos, {n, 3}), C(cell, {3, 3}); py::array_t<bool> B(pbc, {3});
    return new CellList(get_cell_list(P, C, B, extension, cutoff)); CATCH(nullptr)
}
void* ms_cl_new(double* pos, int* idx, double* fac, int n, double cutoff) {
    TRY
    py::array_t<double> P(pos, {n, 3}), F(fac, {n, 3}); py::array_t<int> I(idx, {n});
    // the constructor copies everything it needs; indices_py must own its data
    py::array_t<int> Iown({n}); memcpy(Iown.ptr, idx, sizeof(int)*n);
    return new CellList(P, Iown, F, cutoff); CATCH(nullptr)
}
void ms_cl_free(void* h) { delete (CellList*)h; }
void* ms_cl_query_pos(void* h, double x, double y, double z, long* n_out) {
    TRY
    CellListResult* r = new CellListResult(((CellList*)h)->get_neighbours_for_position(x, y, z));
    *n_out = (long)r->indices.size(); return r; CATCH(nullptr)
}
void* ms_cl_query_idx(void* h, int i, long* n_out) {
    TRY
    CellListResult* r = new CellListResult(((CellList*)h)->get_neighbours_for_index(i));
    *n_out = (long)r->indices.size(); return r; CATCH(nullptr)
}
void ms_res_copy(void* rv, int* indices, double* dist, double* dist2, double* disp, int* iorig, double* fac) {
    CellListResult* r = (CellListResult*)rv; size_t n = r->indices.size();
    for (size_t i = 0; i < n; ++i) {
        indices[i] = r->indices[i]; dist[i] = r->distances[i]; dist2[i] = r->distances_squared[i]; iorig[i] = r->indices_original[i];
        for (int k = 0; k < 3; ++k) { disp[3*i+k] = r->displacements[i][k]; fac[3*i+k] = r->factors[i][k]; }
    }
}
void ms_res_free(void* rv) { delete (CellListResult*)rv; }
}
