"""Independent dimensionality oracle: rank of the cycle lattice of the periodic bonding graph."""
import numpy as np, itertools
from fractions import Fraction
def heights(cell):
    v=abs(np.linalg.det(cell))
    return np.array([v/np.linalg.norm(np.cross(cell[(i+1)%3],cell[(i+2)%3])) for i in range(3)])
def complete(cell,pbc):
    c=np.array(cell,float)
    # replace zero / irrelevant non-periodic vectors by something orthogonal so that heights are defined
    from ase.geometry import complete_cell
    return complete_cell(c)
def bonds(pos,cell,pbc,radii,thr,eps=1e-7):
    """all (i,j,k) with |r_i - r_j - k.cell| - R_i - R_j <= thr ; returns edges and ambiguity flag"""
    pbc=np.asarray(pbc,bool); cell=np.asarray(cell,float); n=len(pos)
    cc=complete(cell,pbc)
    # wrap into cell along periodic dirs, remember shifts
    frac=np.linalg.solve(cc.T,np.asarray(pos,float).T).T
    shift=np.zeros((n,3),int); shift[:,pbc]=np.floor(frac[:,pbc]).astype(int)
    fw=frac-shift; pw=fw@cc
    cutoff=thr+2*max(radii)
    h=heights(cc)
    K=[int(np.ceil(cutoff/h[i]))+1 if pbc[i] else 0 for i in range(3)]
    offs=np.array(list(itertools.product(*[range(-k,k+1) for k in K])))
    vec=offs@cc
    edges=[]; amb=False
    for i in range(n):
        for j in range(n):
            d=pw[i]-pw[j]-vec                       # (noffs,3)
            l=np.linalg.norm(d,axis=1)-radii[i]-radii[j]
            if i==j: l[(offs==0).all(axis=1)]=np.inf   # no self loop at zero offset
            if (np.abs(l-thr)<eps).any(): amb=True
            for o in offs[l<=thr]:
                # edge in terms of ORIGINAL (unwrapped) atoms: r_i - r_j - k.cell with k = o - shift_i + shift_j ... only the wrapped labels matter for rank up to a change of potentials
                edges.append((i,j,tuple(o)))
    return edges,amb
def rank_int(vectors):
    if not vectors: return 0
    return int(np.linalg.matrix_rank(np.array(vectors,float)))
def rank_gf2(vectors):
    rows=[int(''.join(str(int(x)%2) for x in v),2) for v in vectors]
    r=0; rows=[x for x in rows if x]
    basis=[]
    for x in rows:
        for b in basis: x=min(x,x^b)
        if x: basis.append(x)
    return len(basis)
def dimensionality(pos,cell,pbc,radii,thr):
    n=len(pos); edges,amb=bonds(pos,cell,pbc,radii,thr)
    parent=list(range(n))
    def find(a):
        while parent[a]!=a: parent[a]=parent[parent[a]]; a=parent[a]
        return a
    pot={}  # potential relative to root: dict node->offset (only valid within tree); use BFS instead
    adj={i:[] for i in range(n)}
    for i,j,o in edges: adj[i].append((j,np.array(o))); 
    comp=[-1]*n; ncomp=0; phi=[None]*n; cyc=[]
    for s in range(n):
        if comp[s]!=-1: continue
        comp[s]=ncomp; phi[s]=np.zeros(3,int); st=[s]
        while st:
            u=st.pop()
            for v,o in adj[u]:
                # edge: u bonded to image of v at offset o:  r_u ~ r_v + o.cell   => phi[v] = phi[u] + o
                if comp[v]==-1: comp[v]=ncomp; phi[v]=phi[u]+o; st.append(v)
        ncomp+=1
    if ncomp>1: return None,None,amb
    for i,j,o in edges:
        c=phi[i]+np.array(o)-phi[j]
        if c.any(): cyc.append(tuple(int(x) for x in c))
    cyc=list(set(cyc))
    return rank_int(cyc), rank_gf2(cyc), amb
