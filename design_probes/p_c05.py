import numpy as np, spglib, pickle, time, itertools, collections, sys, warnings
warnings.filterwarnings("ignore")
from ase import Atoms
from ase.cell import Cell
from p_cat import cellpar, wrapd, orbit, SH
from p_cat2 import build
from congr import congruent
from matid.symmetry import SymmetryAnalyzer
def sohncke():
    S=set()
    for sg in range(1,231):
        db=spglib.get_symmetry_from_database(SH[sg])
        if all(round(np.linalg.det(R))==1 for R in db['rotations']): S.add(sg)
    return S
SOH=sohncke(); assert len(SOH)==65
def run(sg0,sg1,seed):
    rng=np.random.default_rng(seed)
    res=collections.Counter(); fails=[]
    for sg in range(sg0,sg1+1):
        cat,_=build(sg,rng)
        db=spglib.get_symmetry_from_database(SH[sg]); Rs=db['rotations']; ts=db['translations']; ops=list(zip(Rs,ts))
        letters=sorted(cat)
        gen_letter=[l for l in letters if cat[l]['stab'] is None][0]
        def point(l):
            q=rng.uniform(0.05,0.95,3)
            if cat[l]['stab'] is None: return q
            return np.mean([Rs[o]@q+ts[o]-np.array(n) for o,n in cat[l]['stab']],axis=0)
        pats=[(a,) for a in letters]+list(itertools.permutations(letters,2))
        if len(pats)>60: pats=[pats[i] for i in rng.choice(len(pats),60,replace=False)]
        for pat in pats:
            use=list(pat)
            if gen_letter not in use: use=use+[gen_letter]   # anchor of generic position to pin the group
            cell=Cell.fromcellpar(cellpar(sg,rng)).array
            pts=[];nums=[]
            Zs=[8,14,26,50]
            ok=True
            for l,Z in zip(use,Zs):
                o=orbit(ops,point(l)); pts.append(o); nums+= [Z]*len(o)
            pts=np.vstack(pts)
            at=Atoms(numbers=nums,cell=cell,scaled_positions=pts,pbc=True)
            if len(at)>200: res['toobig']+=1; continue
            D=at.get_all_distances(mic=True); np.fill_diagonal(D,9)
            if D.min()<0.5:
                at.set_cell(cell*(0.8/D.min()),scale_atoms=True)
            d1=spglib.get_symmetry_dataset((at.cell.array,at.get_scaled_positions(),at.numbers),symprec=1e-4); d2=spglib.get_symmetry_dataset((at.cell.array,at.get_scaled_positions(),at.numbers),symprec=1e-2)
            if d1 is None or d2 is None or d1.number!=d2.number: res['illcond']+=1; continue
            if d1.number!=sg: res['promoted']+=1
            res['n']+=1
            try:
                an=SymmetryAnalyzer(at,symmetry_tol=1e-3); conv=an.get_conventional_system()
            except Exception as e:
                res['exc']+=1; fails.append((sg,pat,type(e).__name__,str(e)[:60])); continue
            r=congruent((at.cell.array,at.positions,list(at.numbers)),(conv.cell.array,conv.positions,list(conv.numbers)))
            nonid = not an._best_transform.get("identity")
            res['nonidentity-transform']+=nonid
            if d1.number in SOH: res['sohncke']+=1
            if not r['proper']:
                res['NOT-PROPER']+=1; fails.append((sg,d1.number,pat,r, None if not nonid else round(np.linalg.det(an._best_transform['transformation'][:3,:3]))))
    return res,fails
if __name__=="__main__":
    t0=time.time(); res,fails=run(int(sys.argv[1]),int(sys.argv[2]),int(sys.argv[3]))
    print(sys.argv[1:],round(time.time()-t0,1),dict(res)); 
    for f in fails[:15]: print("  ",f)
