import numpy as np, spglib, time, pickle, re, collections
from fractions import Fraction
exec(open('e14.py').read().split("def std_hall")[0])
SH=pickle.load(open('SH.pkl','rb'))
def ev(expr, v):
    # my own tiny evaluator for expressions like "-x+1/4", "2x", "x-y"
    s=expr.replace(' ','')
    toks=re.findall(r'[+-]?[^+-]+', s)
    val=0.0
    for tk in toks:
        sign=1.0
        if tk[0]=='+': tk=tk[1:]
        elif tk[0]=='-': sign=-1.0; tk=tk[1:]
        m=re.fullmatch(r'(\d+(?:/\d+)?)?([xyz])?', tk)
        assert m, (expr,tk)
        coef=float(Fraction(m.group(1))) if m.group(1) else 1.0
        val+= sign*coef*(v[m.group(2)] if m.group(2) else 1.0)
    return val
res=collections.Counter(); fails=[]
t0=time.time()
for sg in range(1,231):
    ops=spglib.get_symmetry_from_database(SH[sg])
    W=WYCKOFF_SETS[sg]
    letters=[k for k in W if k!='translations']
    for w in letters:
        v=dict(zip('xyz', rng.uniform(0.03,0.47,3)*np.array([1,1.13,0.87])))
        p=np.array([ev(e,v) for e in W[w]['expressions'][0]])
        anchor=[orbit(ops, rng.uniform(0,1,3)) for _ in range(2)]
        tgt=orbit(ops,p)
        pts=np.vstack(anchor+[tgt]); nums=[1]*len(anchor[0])+[2]*len(anchor[1])+[50]*len(tgt)
        cell=Cell.fromcellpar(cellpar(sg)).array
        at=Atoms(numbers=nums, cell=cell, scaled_positions=pts, pbc=True)
        ds=spglib.get_symmetry_dataset((cell,pts,nums),symprec=1e-3)
        if ds is None: res["spgnone"]+=1; fails.append((sg,w,"spglib None")); continue
        if ds.number!=sg: res["promoted"]+=1; continue
        mult=len(tgt)
        exp_mult=len(W[w]['expressions'])*(len(W['translations'])+1)
        if mult!=exp_mult: fails.append((sg,w,'mult',mult,exp_mult)); 
        try:
            an=SymmetryAnalyzer(at, symmetry_tol=1e-3)
            sets=an.get_wyckoff_sets_conventional(return_parameters=True)
            conv=an.get_conventional_system()
        except Exception as e:
            fails.append((sg,w,type(e).__name__,str(e)[:80])); res['exc']+=1; continue
        sp=conv.get_scaled_positions()
        for s in sets:
            if s.atomic_number!=50: continue
            res['sets']+=1
            free=W[s.wyckoff_letter]['variables']
            vals={k:getattr(s,k) for k in 'xyz'}
            if {k for k,x in vals.items() if x is not None}!=set(free): fails.append((sg,w,s.wyckoff_letter,'freevars',vals,free)); continue
            vv={k:(x if x is not None else 0.0) for k,x in vals.items()}
            q=np.array([ev(e,vv) for e in s.representative])
            d=sp[s.indices]-q; d-=np.rint(d)
            dist=np.linalg.norm(d@conv.cell.array,axis=1).min()
            if dist>2e-3: fails.append((sg,w,s.wyckoff_letter,'regen',dist))
            if any(x is not None and not (0<=x<1) for x in vals.values()): fails.append((sg,w,'range',vals))
print(time.time()-t0, res); print(len(fails)); 
for f in fails[:60]: print(f)
