import numpy as np, time, sys, collections, warnings
warnings.filterwarnings("ignore")
from p_c02 import *
from matid.classification.classifier import Classifier
from matid.classification.classifications import Surface, Material2D
from ase.data import atomic_numbers
def make_slab(entry, facet, layers, rng, minlat=9.0):
    sym,st,prim,conv=entry
    s=ase.build.surface(conv,facet,layers,vacuum=8,periodic=True)
    h=heights(s.cell.array); L=np.linalg.norm(s.cell.array,axis=1)
    reps=np.maximum(1,np.ceil(minlat/h).astype(int)); reps[2]=1
    s=s*tuple(reps); s.set_pbc(True); return s
def add_ads(s,k,rng):
    s=s.copy(); idx=[]
    present=set(s.numbers)
    Zs=[z for z in (1,8,7,9,17) if z not in present]
    top=s.positions[:,2].max()
    for i in range(k):
        Z=Zs[rng.integers(len(Zs))]
        # on-top of a random top-layer atom
        tops=[j for j in range(len(s)) if s.positions[j,2]>top-0.3 and j not in idx]
        j=tops[rng.integers(len(tops))]
        d=covalent_radii[Z]+covalent_radii[s.numbers[j]]+0.2
        s+=Atoms(numbers=[Z],positions=[s.positions[j]+[0,0,d]]); idx.append(len(s)-1)
    return s,idx
if __name__=="__main__":
    shard=int(sys.argv[1]); nsh=int(sys.argv[2]); rng=np.random.default_rng(shard)
    lib=library(); res=collections.Counter(); fails=[]; t0=time.time()
    cases=[(e,f,l,k) for e in lib for f in [(1,0,0),(1,1,0),(1,1,1),(0,0,1)] for l in (3,4,5) for k in (0,1,2)]
    for ci,(e,f,l,k) in enumerate(cases):
        if ci%nsh!=shard: continue
        if e[1]=='bcc' and f in [(1,1,0),(1,1,1)]: continue
        if e[1] in('hcp','wurtzite') and f==(1,1,1): continue
        if len(e[2])>6 or np.linalg.norm(e[2].cell.array,axis=1).max()>=5.9: res['skip-prim']+=1; continue
        try: s=make_slab(e,f,l,rng)
        except Exception: res['skip-build']+=1; continue
        if len(s)>250: res['skip-big']+=1; continue
        if precond(s,0): res['skip-precond']+=1; continue
        s2,ads=add_ads(s,k,rng)
        s3=present(s2,0,rng); # permutation inside present loses index mapping -> redo mapping
        # simpler: no permutation; rotate+translate only
        q=np.linalg.qr(rng.normal(size=(3,3)))[0]
        if np.linalg.det(q)<0: q[:,0]*=-1
        s3=s2.copy(); s3.set_cell(s3.cell.array@q.T,scale_atoms=True); s3.positions+=rng.uniform(-5,5,3)
        try: c=Classifier().classify(s3)
        except Exception as ex: res['EXC']+=1; fails.append((e[0],f,l,k,type(ex).__name__)); continue
        ok=type(c) is Surface and sorted(c.outliers)==sorted(ads)
        res['ok' if ok else 'FAIL']+=1
        if not ok: fails.append((e[0],e[1],f,l,k,len(s3),type(c).__name__, (sorted(c.outliers)[:6],ads) if hasattr(c,'outliers') else None))
    print(shard,round(time.time()-t0,1),dict(res))
    for f in fails: print("   FAIL",f)
