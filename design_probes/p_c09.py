import numpy as np, sys, time, collections, warnings
warnings.filterwarnings("ignore")
from ase import Atoms
from ase.cell import Cell
from ase.data import covalent_radii
from ase.data.vdw_alvarez import vdw_radii
import matid.geometry as g
from netrank import dimensionality
rng=np.random.default_rng(int(sys.argv[1]))
def rand_cell():
    k=rng.integers(0,3)
    L=rng.uniform(0.5,30,3) if rng.random()<0.3 else rng.uniform(2,12,3)
    if k==0: c=np.diag(L)
    else:
        while True:
            try: c=Cell.fromcellpar([*L,*rng.uniform(60,120,3)]).array; break
            except AssertionError: pass
    if k==2:
        M=np.eye(3,dtype=int)
        for _ in range(rng.integers(1,4)):
            a,b=rng.choice(3,2,replace=False); M[a]+=rng.integers(-2,3)*M[b]
        c=M@c
    q=np.linalg.qr(rng.normal(size=(3,3)))[0]
    if np.linalg.det(q)<0: q[:,0]*=-1
    return c@q
res=collections.Counter(); fails=[]; t0=time.time()
for it in range(int(sys.argv[2])):
    cell=rand_cell(); pbc=rng.integers(0,2,3).astype(bool); n=int(rng.integers(1,20))
    shape=rng.choice(["gas","layer","chain","blob"])
    f=rng.uniform(0,1,(n,3))
    if shape=="layer": f[:,rng.integers(3)]=0.5+rng.normal(0,0.03,n)
    if shape=="chain": a=rng.integers(3); f[:,(a+1)%3]=0.5+rng.normal(0,0.03,n); f[:,(a+2)%3]=0.5+rng.normal(0,0.03,n)
    if shape=="blob": f=0.5+rng.normal(0,0.08,(n,3))
    Z=rng.choice([1,6,8,14,26,29,79],n)
    pos=f@cell
    thr=float(rng.uniform(0.3,3.5)); rk=rng.choice(["covalent","vdw","custom"])
    radii=covalent_radii[Z] if rk=="covalent" else vdw_radii[Z] if rk=="vdw" else rng.uniform(0.2,2.0,n)
    hmin=min([abs(np.linalg.det(cell))/np.linalg.norm(np.cross(cell[(i+1)%3],cell[(i+2)%3])) for i in range(3) if pbc[i]],default=9)
    if (thr+2*radii.max())/hmin>6: res['skip-tiny']+=1; continue
    at=Atoms(numbers=Z,positions=pos,cell=cell,pbc=pbc); at.wrap()
    dz,d2,amb=dimensionality(at.positions,cell,pbc,radii,thr)
    if amb: res['amb']+=1; continue
    if dz is not None and dz!=d2: res['rank-mismatch']+=1; continue
    try: dm=g.get_dimensionality(at,thr,radii=(rk if rk!="custom" else radii))
    except Exception as e: res['exc']+=1; fails.append((type(e).__name__,str(e)[:60])); continue
    res['n']+=1; res['dim=%s'%dz]+=1
    if dm!=dz: res['MISMATCH']+=1; fails.append((shape,pbc.tolist(),n,thr,rk,dz,dm,np.round(cell,2).tolist()))
print(round(time.time()-t0,1),dict(res)); 
for f in fails[:8]: print("  ",f)
