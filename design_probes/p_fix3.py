import numpy as np, sys, collections, warnings
warnings.filterwarnings("ignore")
import matid.geometry.geometry as gg, matid.geometry as g
orig=gg.get_dimensionality
def patched(system, cluster_threshold=gg.CLUSTER_THRESHOLD, dist_matrix_radii_mic_1x=None, return_clusters=False, radii="covalent"):
    if system.get_pbc().any():
        system=system.copy(); system.wrap()
    return orig(system, cluster_threshold, dist_matrix_radii_mic_1x, return_clusters, radii)
gg.get_dimensionality=patched; g.get_dimensionality=patched
from ase import Atoms
from ase.data import covalent_radii
from netrank import dimensionality
sys.argv=["x","1","0"]; import p_c09
rng=np.random.default_rng(5); res=collections.Counter()
for it in range(1500):
    cell=p_c09.rand_cell(); pbc=rng.integers(0,2,3).astype(bool); n=int(rng.integers(1,15))
    f=rng.uniform(0,1,(n,3)); Z=rng.choice([1,6,8,14,26],n); thr=float(rng.uniform(0.3,3.0)); radii=covalent_radii[Z]
    hmin=min([abs(np.linalg.det(cell))/np.linalg.norm(np.cross(cell[(i+1)%3],cell[(i+2)%3])) for i in range(3) if pbc[i]],default=9)
    if (thr+2*radii.max())/hmin>6: continue
    k=rng.integers(-5,6,(n,3)); k[:,~pbc]=0
    at=Atoms(numbers=Z,positions=(f+k)@cell,cell=cell,pbc=pbc)
    dz,d2,amb=dimensionality(at.positions,cell,pbc,radii,thr)
    if amb: continue
    dm=g.get_dimensionality(at,thr)
    res['n']+=1
    if dm!=dz: res['MISMATCH']+=1
print(dict(res))
