import numpy as np, sys, collections, warnings, spglib, itertools
warnings.filterwarnings("ignore")
which=sys.argv[1]
import matid.geometry.geometry as gg, matid.geometry as g
from matid.symmetry import symmetryanalyzer as sa
if which=="c09":
    src=open(gg.__file__).read().replace("cutoff = cluster_threshold + 2 * max_radii","cutoff = cluster_threshold + max_radii")
    ns={}; exec(compile(src,gg.__file__,'exec'),gg.__dict__); g.get_dimensionality=gg.get_dimensionality
    sys.argv=["x","3","600"]; exec(open('p_c09.py').read())
if which=="c06":
    def ident(self,space_group,old,system):
        self._best_transform={"transformation":np.identity(4),"permutations":{x:x for x in old},"identity":True}
        return system,old
    sa.SymmetryAnalyzer._find_wyckoff_ground_state=ident
    sys.argv=["x"]; exec(open('e24.py').read())
if which=="c16":
    src=open(gg.__file__).read().replace("min_distance_index = np.argmin(distances)\n            closest_distance = distances[min_distance_index]\n            closest_factor","min_distance_index = 0\n            closest_distance = distances[min_distance_index]\n            closest_factor")
    exec(compile(src,gg.__file__,'exec'),gg.__dict__); g.get_matches=gg.get_matches
    sys.argv=["x","2","300"]; exec(open('p_c16.py').read())
if which=="c20":
    src=open(gg.__file__).read().replace("new_scaled_pos -= offset_rel","pass")
    exec(compile(src,gg.__file__,'exec'),gg.__dict__); g.get_minimized_cell=gg.get_minimized_cell
    sys.argv=["x","2","300"]; exec(open('p_c20.py').read())
