import numpy as np, sys, collections, warnings, time, spglib, itertools
warnings.filterwarnings("ignore")
import matid.data.symmetry_data as sd
from p_c05 import SOH, run as run_c05
removed=0
for sg in SOH:
    lst=sd.CHIRALITY_PRESERVING_EUCLIDEAN_NORMALIZERS.get(sg)
    if lst is None: continue
    keep=[n for n in lst if np.linalg.det(n['transformation'][:3,:3])>0]
    removed+=len(lst)-len(keep); lst[:]=keep   # in place: symmetryanalyzer imported the same dict object
print("removed",removed)
# C05 congruence on Sohncke groups only
import p_c05
tot=collections.Counter(); allf=[]
for sg in sorted(SOH):
    if sg<int(sys.argv[1]) or sg>int(sys.argv[2]): continue
    r,f=run_c05(sg,sg,sg); tot.update(r); allf+=f
print(dict(tot)); print(allf[:10])
# C06 invariance on Sohncke groups: presentation pairs incl. origin shifts
from ase import Atoms
from ase.cell import Cell
from p_cat import cellpar, orbit, SH
from p_cat2 import build
from matid.symmetry import SymmetryAnalyzer
from scipy.spatial.transform import Rotation
rng=np.random.default_rng(0); res=collections.Counter(); ex=[]
def desc(at):
    an=SymmetryAnalyzer(at,symmetry_tol=1e-3)
    ws=tuple(sorted((w.wyckoff_letter,w.element,len(w.indices)) for w in an.get_wyckoff_sets_conventional(False)))
    return an.get_material_id(),an.get_space_group_number(),ws
for sg in sorted(SOH):
    if sg<int(sys.argv[1]) or sg>int(sys.argv[2]): continue
    cat,_=build(sg,rng); db=spglib.get_symmetry_from_database(SH[sg]); Rs=db['rotations']; ts=db['translations']; ops=list(zip(Rs,ts))
    letters=sorted(cat); genl=[l for l in letters if cat[l]['stab'] is None][0]
    def point(l):
        q=rng.uniform(0.05,0.95,3)
        if cat[l]['stab'] is None: return q
        return np.mean([Rs[o]@q+ts[o]-np.array(n) for o,n in cat[l]['stab']],axis=0)
    pats=list(itertools.permutations(letters,2))+[(a,) for a in letters]
    if len(pats)>25: pats=[pats[i] for i in rng.choice(len(pats),25,replace=False)]
    for pat in pats:
        use=list(pat)+([genl] if genl not in pat else [])
        pts=[];nums=[]
        for l,Z in zip(use,[8,14,26]):
            o=orbit(ops,point(l)); pts.append(o); nums+=[Z]*len(o)
        at=Atoms(numbers=nums,cell=Cell.fromcellpar(cellpar(sg,rng)).array,scaled_positions=np.vstack(pts),pbc=True)
        if len(at)>100: continue
        D=at.get_all_distances(mic=True); np.fill_diagonal(D,9)
        if D.min()<0.5: continue
        b=at.copy(); M=np.eye(3,dtype=int)
        for _ in range(3):
            a_,b_=rng.choice(3,2,replace=False); M[a_]+=rng.integers(-2,3)*M[b_]
        b.set_cell(M@b.cell.array,scale_atoms=False)
        Q=Rotation.random(random_state=int(rng.integers(1e9))).as_matrix(); b.set_cell(b.cell.array@Q.T,scale_atoms=True)
        b.positions+=rng.choice([0,0.5,1/3,0.25],3)@b.cell.array+rng.uniform(-1,1,3)*(rng.random()<0.5); b.wrap(); b=b[rng.permutation(len(b))]
        try: A=desc(at); B=desc(b)
        except Exception as e: res['exc']+=1; continue
        res['pairs']+=1
        if A!=B: res['DIFF']+=1; ex.append((sg,pat,A[1:],B[1:]))
print(dict(res)); print(ex[:5])
