import numpy as np, time, traceback, collections, sys
import ase.build
from ase import Atoms
from ase.cell import Cell
from matid.clustering import SBC
from matid.classification.classifier import Classifier
import warnings; warnings.filterwarnings("ignore")
def gen(rng):
    kind = rng.choice(["gas","crystal","two","mol"])
    pbc = rng.integers(0,2,3).astype(bool)
    if kind=="gas":
        n=rng.integers(1,40)
        cell=Cell.fromcellpar([*rng.uniform(3,12,3), *rng.uniform(60,120,3)]).array
        pos=rng.uniform(-0.3,1.3,(n,3))@cell
        Z=rng.choice([1,6,8,14,29,79],n)
        return Atoms(numbers=Z,positions=pos,cell=cell,pbc=pbc)
    if kind=="crystal" or kind=="two":
        el=rng.choice(["Cu","Fe","Si","Al","Au","Mg"])
        try: b=ase.build.bulk(el, cubic=bool(rng.integers(0,2)))
        except Exception: b=ase.build.bulk(el)
        reps=rng.integers(1,4,3)
        s=b*tuple(reps)
        if kind=="two":
            el2=rng.choice(["NaCl","Cu","Si"])
            b2=ase.build.bulk("NaCl","rocksalt",a=5.64) if el2=="NaCl" else ase.build.bulk(el2)
            s2=b2*tuple(rng.integers(1,3,3)); s2.translate(rng.uniform(0,3,3))
            s = s + s2
        if rng.random()<0.5:
            k=rng.integers(0,max(1,len(s)//3)); 
            if k: del s[list(rng.choice(len(s),k,replace=False))]
        if len(s)==0: s=b
        s.rattle(rng.choice([0,0.02,0.1,0.3]), seed=int(rng.integers(1e6)))
        if rng.random()<0.3: s.numbers[rng.integers(len(s))]=rng.choice([1,8,79])
        s.set_pbc(pbc)
        if rng.random()<0.3:
            c=s.cell.array.copy(); 
            for i in range(3):
                if not pbc[i] and rng.random()<0.5: c[i]=0
            s.set_cell(c)
        if rng.random()<0.3: s.positions += rng.integers(-2,3,(len(s),3))@s.cell.array
        return s
    m=ase.build.molecule(rng.choice(["H2O","CH4","C6H6","NH3"]))
    m.set_cell(np.diag(rng.uniform(2,10,3))); m.set_pbc(pbc)
    return m
rng=np.random.default_rng(int(sys.argv[1]))
bk=collections.Counter(); ex={}
t0=time.time(); n=0
for i in range(int(sys.argv[2])):
    s=gen(rng); n+=1
    for name,f in (("sbc",lambda s: SBC().get_clusters(s)),("cls",lambda s: Classifier().classify(s))):
        try: f(s.copy())
        except Exception as e:
            tb=traceback.extract_tb(e.__traceback__)
            fr=[f for f in tb if "/repo/matid" in f.filename][-1]
            key=(name,type(e).__name__, fr.filename.split("matid/")[-1], fr.lineno)
            bk[key]+=1; ex.setdefault(key,(str(e)[:100], str(s.pbc), len(s), s.cell.array.tolist()))
print(n, time.time()-t0)
for k,v in bk.most_common(): print(v,k,ex[k])
