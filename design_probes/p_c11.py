import numpy as np, spglib, pickle, time, itertools, collections, sys, warnings
warnings.filterwarnings("ignore")
from ase import Atoms
from ase.cell import Cell
import ase.build
from p_cat import wrapd, orbit, SH
from matid.symmetry import SymmetryAnalyzer
def layer_groups():
    out=[]
    for sg in range(1,195):
        t=spglib.get_spacegroup_type(SH[sg])
        db=spglib.get_symmetry_from_database(SH[sg]); Rs=db['rotations']; ts=db['translations']
        if t.international_short[0] not in 'PC': continue
        if any(R[2,0] or R[2,1] or R[0,2] or R[1,2] for R in Rs): continue
        # symmorphic: point group ops with zero translation (after removing centring)
        if any(abs(wrapd(tt)[2])>1e-9 for tt in ts): continue
        # symmorphic test: every rotation appears with a translation that is a centring vector or zero
        cent=[tt for R,tt in zip(Rs,ts) if (R==np.eye(3,dtype=int)).all()]
        ok=True
        for R in {tuple(R.flatten()) for R in Rs}:
            tts=[tt for RR,tt in zip(Rs,ts) if tuple(RR.flatten())==R]
            if not any(any(np.allclose(wrapd(tt-c),0,atol=1e-9) for c in cent) for tt in tts): ok=False
        if ok: out.append(sg)
    return out
LG=layer_groups()
def inplane(sg,rng):
    a,b=rng.uniform(3,6,2); ga=rng.uniform(70,110)
    if sg<=2: return a,b,ga
    if sg<=15:
        # unique axis b (in-plane) -> a,c... our plane is (a,b): 2-fold along b => gamma=90
        return a,b,90
    if sg<=74: return a,b,90
    if sg<=142: return a,a,90
    return a,a,120
def gen_layer(rng):
    sg=int(rng.choice(LG)); db=spglib.get_symmetry_from_database(SH[sg]); ops=list(zip(db['rotations'],db['translations']))
    a,b,ga=inplane(sg,rng); thick=rng.uniform(0,3.0); c=20.0
    cell=Cell.fromcellpar([a,b,c,90,90,ga]).array
    pts=[];nums=[]
    for Z in rng.choice([1,5,6,7,8,14,16,42],rng.integers(1,4),replace=False):
        p=rng.uniform(0.05,0.95,3)
        if rng.random()<0.4: p[:2]=rng.choice([0,0.5,1/3,2/3],2)
        # z within slab of thickness 'thick' around 0 (group ops map z->±z about 0)
        p[2]=(rng.uniform(-0.5,0.5)*thick)/c
        o=orbit(ops,p%1.0); pts.append(o); nums+=[Z]*len(o)
    at=Atoms(numbers=nums,cell=cell,scaled_positions=np.vstack(pts),pbc=[1,1,0])
    # move layer to middle
    at.positions[:,2]=((at.positions[:,2]+c/2)%c)
    return sg,at
def variant(at,rng,kind):
    b=at.copy()
    if kind=="vacuum":
        f=rng.uniform(0.6,2.0); c=b.cell.array.copy(); c[2]*=f; b.set_cell(c,scale_atoms=False)
    if kind=="relabel":
        perm=list(rng.permutation(3)); b=Atoms(numbers=b.numbers,positions=b.positions,cell=b.cell.array[perm],pbc=b.pbc[perm])
    if kind=="super":
        b=b*(int(rng.integers(1,3)),int(rng.integers(1,4)),1)
    if kind=="rigid":
        q=np.linalg.qr(rng.normal(size=(3,3)))[0]
        if np.linalg.det(q)<0: q[:,0]*=-1
        b.set_cell(b.cell.array@q.T,scale_atoms=True); b.positions+=rng.uniform(-5,5,3); b=b[rng.permutation(len(b))]
    if kind=="flip":
        q=np.diag([1,-1,-1.0]); b.set_cell(b.cell.array@q.T,scale_atoms=True)
    return b
def desc(at,m2d=1):
    an=SymmetryAnalyzer(at,symmetry_tol=1e-3,min_2d_thickness=m2d); c=an.get_conventional_system()
    ws=tuple(sorted((w.wyckoff_letter,w.element,len(w.indices)) for w in an.get_wyckoff_sets_conventional(False)))
    cp=c.cell.cellpar()
    return dict(mid=an.get_material_id(),sg=an.get_space_group_number(),ws=ws,ab=tuple(np.round([cp[0],cp[1],cp[5]],4))),c
if __name__=="__main__":
    rng=np.random.default_rng(int(sys.argv[1])); res=collections.Counter(); fails=[]; t0=time.time()
    print(len(LG),LG)
    for it in range(int(sys.argv[2])):
        sg,at=gen_layer(rng)
        D=at.get_all_distances(mic=True); np.fill_diagonal(D,9)
        if D.min()<0.7: res['tooclose']+=1; continue
        # well-conditioned
        try:
            A,c=desc(at)
        except Exception as e: res['exc-base']+=1; fails.append(('exc-base',sg,type(e).__name__,str(e)[:60])); continue
        res['n']+=1
        # direct checks
        nrm=np.cross(at.cell[0],at.cell[1]); nrm/=np.linalg.norm(nrm); ext=np.ptp(at.positions@nrm)
        sp=c.get_scaled_positions(wrap=False)
        if c.pbc.tolist()!=[True,True,False]: res['FAIL-pbc']+=1; fails.append(('pbc',sg))
        if sp[:,2].min()<-1e-6 or sp[:,2].max()>1+1e-6: res['FAIL-inside']+=1; fails.append(('inside',sg,sp[:,2].min(),sp[:,2].max()))
        if abs(np.linalg.norm(c.cell[2])-max(ext,1))>1e-3: res['FAIL-thick']+=1; fails.append(('thick',sg,np.linalg.norm(c.cell[2]),ext))
        an3=SymmetryAnalyzer(Atoms(numbers=at.numbers,positions=at.positions,cell=at.cell,pbc=True),symmetry_tol=1e-3)
        if an3.get_material_id()==A['mid']: res['FAIL-3did']+=1
        for kind in ("vacuum","relabel","super","rigid","flip"):
            b=variant(at,rng,kind)
            try: B,_=desc(b)
            except Exception as e: res['exc-'+kind]+=1; fails.append(('exc-'+kind,sg,type(e).__name__,str(e)[:70])); continue
            res['v-'+kind]+=1
            for k in A:
                if A[k]!=B[k]: res['FAIL-%s-%s'%(kind,k)]+=1; fails.append((kind,k,sg,A[k],B[k]))
    print(round(time.time()-t0,1),dict(res))
    seen=set()
    for f in fails:
        if f[:2] not in seen: seen.add(f[:2]); print("   ",f)
