import numpy as np, sys, time, collections, warnings
warnings.filterwarnings("ignore")
from ase import Atoms
import matid.geometry as g
from p_c09 import rand_cell
rng=np.random.default_rng(int(sys.argv[1])); res=collections.Counter(); fails=[]
def fail(k,*a): res['FAIL-'+k]+=1; fails.append((k,)+a)
for it in range(int(sys.argv[2])):
    cell=rand_cell(); pbc=rng.integers(0,2,3).astype(bool); n=int(rng.integers(1,11))
    f=rng.uniform(-1.5,2.5,(n,3)) if rng.random()<0.5 else rng.uniform(0,1,(n,3))
    pos=f@cell; Z=rng.choice([1,6,8,26,79],n)
    at=Atoms(numbers=Z,positions=pos,cell=cell,pbc=pbc)
    res['n']+=1
    # roundtrip
    s=g.to_scaled(cell,pos.copy()); p2=g.to_cartesian(cell,s.copy())
    if not np.allclose(p2,pos,atol=1e-8*np.linalg.cond(cell)): fail('roundtrip')
    sw=g.to_scaled(cell,pos.copy(),wrap=True,pbc=pbc)
    d=sw-s
    if not (np.allclose(d[:,~pbc],0) and np.allclose(d[:,pbc],np.rint(d[:,pbc]),atol=1e-9) and (sw[:,pbc]>=0).all() and (sw[:,pbc]<1).all()): fail('wrap')
    # minimized cell
    axis=int(rng.integers(3)); ms=float(rng.uniform(0.1,3))
    m=g.get_minimized_cell(at,axis,ms)
    if not np.array_equal(m.numbers,Z) or not np.array_equal(m.pbc,pbc): fail('min-meta')
    dd0=pos[:,None]-pos[None,:]; dd1=m.positions[:,None]-m.positions[None,:]
    if not np.allclose(dd0,dd1,atol=1e-7*max(1,np.abs(pos).max())): fail('min-disp',np.abs(dd0-dd1).max())
    c0=np.array(cell); c1=m.cell.array
    others=[i for i in range(3) if i!=axis]
    if not np.allclose(c1[others],c0[others]): fail('min-othervec')
    u0=c0[axis]/np.linalg.norm(c0[axis])
    if not np.allclose(c1[axis]/np.linalg.norm(c1[axis]),u0,atol=1e-9): fail('min-direction')
    ext=np.ptp(f[:,axis])*np.linalg.norm(c0[axis])
    if abs(np.linalg.norm(c1[axis])-max(ext,ms))>1e-7*max(1,ext): fail('min-length',np.linalg.norm(c1[axis]),ext,ms)
    sp=m.get_scaled_positions(wrap=False)[:,axis]
    if sp.min()<-1e-7 or sp.max()>1+1e-7: fail('min-inside',sp.min(),sp.max())
    if ext<ms and abs((sp.min()+sp.max())/2-0.5)>1e-7: fail('min-centred')
    # swap basis
    a,b=rng.choice(3,2,replace=False); t=at.copy(); g.swap_basis(t,int(a),int(b))
    if not (np.allclose(t.positions,pos) and np.allclose(t.cell[a],cell[b]) and np.allclose(t.cell[b],cell[a]) and t.pbc[a]==pbc[b] and t.pbc[b]==pbc[a]): fail('swap')
    L=float(rng.uniform(0.5,10)); c=g.complete_cell(cell[0],cell[1],L)
    c=np.asarray(c).reshape(3)
    if abs(np.linalg.norm(c)-L)>1e-9 or abs(c@cell[0])>1e-7*L*np.linalg.norm(cell[0]) or abs(c@cell[1])>1e-7*L*np.linalg.norm(cell[1]): fail('complete')
    # com
    masses=at.get_masses()
    def circ(at):
        sp=np.linalg.solve(at.cell.array.T,at.positions.T).T; out=np.zeros(3); R=[]
        for i in range(3):
            if at.pbc[i]:
                zc=np.sum(masses*np.exp(2j*np.pi*sp[:,i]))/masses.sum(); R.append(abs(zc)); out[i]=(np.angle(zc)/(2*np.pi))%1.0
            else: out[i]=np.sum(masses*sp[:,i])/masses.sum()
        return out,(min(R) if R else 1)
    ref,Rmin=circ(at)
    if Rmin<1e-2: res['com-illcond']+=1
    else:
        com=g.get_center_of_mass(at); sc=np.linalg.solve(cell.T,com)
        d=sc-ref; d[pbc]-=np.rint(d[pbc])
        if np.abs(d).max()>1e-7: fail('com-ref',d)
        t=rng.uniform(-5,5,3); at2=at.copy(); at2.positions+=t
        com2=g.get_center_of_mass(at2); d=np.linalg.solve(cell.T,com2-com-t); d[pbc]-=np.rint(d[pbc])
        if np.abs(d).max()>1e-7: fail('com-translate',d)
        at3=at.copy(); k=rng.integers(-3,4,(n,3)); k[:,~pbc]=0; at3.positions+=k@cell
        com3=g.get_center_of_mass(at3); d=np.linalg.solve(cell.T,com3-com); d[pbc]-=np.rint(d[pbc])
        if np.abs(d).max()>1e-7: fail('com-latticeshift',d)
    try: g.get_moments_of_inertia(at)
    except TypeError: res['moi-typeerror']+=1
print(dict(res))
seen=set()
for f in fails:
    if f[0] not in seen: seen.add(f[0]); print("   ",f)
