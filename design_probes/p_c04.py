import numpy as np, time, sys, collections, warnings
warnings.filterwarnings("ignore")
from p_c02 import *
from matid.symmetry import SymmetryAnalyzer
from math import gcd
from functools import reduce
def sig(at,tol):
    an=SymmetryAnalyzer(at,symmetry_tol=tol)
    ws=tuple(sorted((w.wyckoff_letter,w.element,len(w.indices)) for w in an.get_wyckoff_sets_conventional(False)))
    return an.get_material_id(),an.get_space_group_number(),ws
def formula(at):
    c=collections.Counter(at.numbers.tolist()); g=reduce(gcd,c.values()); return {k:v//g for k,v in c.items()},g
if __name__=="__main__":
    shard=int(sys.argv[1]); nsh=int(sys.argv[2]); rng=np.random.default_rng(200+shard)
    lib=library(); res=collections.Counter(); fails=[]; t0=time.time()
    cases=[(e,"bulk",None,None,1) for e in lib]+[(e,"slab",f,l,pz) for e in lib for f in [(1,0,0),(1,1,0),(1,1,1),(0,0,1)] for l in (3,4) for pz in (0,1)]
    mono=[("graphene",ase.build.graphene(vacuum=8)),("BN",ase.build.graphene("BN",a=2.5,vacuum=8)),("MoS2",ase.build.mx2("MoS2",vacuum=8)),("1T",ase.build.mx2("PtSe2",kind="1T",a=3.7,thickness=2.6,vacuum=8))]
    for ci,(e,form,facet,layers,pz) in enumerate(cases):
        if ci%nsh!=shard: continue
        s,why=make(e,form,facet,layers,pz,rng)
        if s is None or len(s)>300: res['skip']+=1; continue
        for noise,tol in ((0,0.1),(0.02,0.5)):
            if precond(s,noise): res['skip-pre']+=1; continue
            s2=present(s,noise,rng)
            cl=SBC().get_clusters(s2,seed=int(rng.integers(1000)))
            if len(cl)!=1: res['c02-fail']+=1; continue
            cell=cl[0].get_cell()
            try: got=sig(cell,tol); ref=sig(e[2],tol)
            except Exception as ex: res['EXC']+=1; fails.append((e[0],form,facet,layers,noise,type(ex).__name__,str(ex)[:60])); continue
            f1,g1=formula(cell); f0,g0=formula(e[2])
            ok = got==ref and sum(cell.pbc)==3 and f1==f0
            res['ok' if ok else 'FAIL']+=1
            if not ok: fails.append((e[0],e[1],form,facet,layers,pz,noise,got[1:],ref[1:],cell.pbc.tolist(),len(cell)))
    if shard==0:
        for name,u in mono:
            u.set_pbc([1,1,0])
            for noise,tol in ((0,0.1),(0.02,0.5)):
                s=u*(int(rng.integers(3,7)),int(rng.integers(3,7)),1); s2=present(s,noise,rng)
                cl=SBC().get_clusters(s2)
                if len(cl)!=1: res['mono-c02fail']+=1; fails.append((name,'nclusters',len(cl))); continue
                cell=cl[0].get_cell(); got=sig(cell,tol); ref=sig(u,tol)
                ok= got==ref and sum(cell.pbc)==2
                res['mono-ok' if ok else 'mono-FAIL']+=1
                if not ok: fails.append((name,noise,got,ref,cell.pbc.tolist()))
    print(shard,round(time.time()-t0,1),dict(res))
    for f in fails: print("   FAIL",f)
