import numpy as np, time, sys, collections, warnings, traceback
warnings.filterwarnings("ignore")
from ase.data import covalent_radii
from p_c01 import gen
from netrank import dimensionality
from matid.classification.classifier import Classifier
from matid.classification.classifications import *
rng=np.random.default_rng(int(sys.argv[1])); res=collections.Counter(); fails=[]; t0=time.time()
for it in range(int(sys.argv[2])):
    kind,s=gen(rng)
    if len(s)==0 or len(s)>150: continue
    fullrank=abs(np.linalg.det(s.cell.array))>1e-6
    if not fullrank and s.pbc.any(): res['skip-domain']+=1; continue
    w=s.copy(); w.wrap()
    dz,d2,amb=dimensionality(w.positions,w.cell.array,w.pbc,covalent_radii[w.numbers],3.5)
    if amb or (dz is not None and dz!=d2): res['skip-amb']+=1; continue
    snap=(s.positions.copy(),s.numbers.copy(),s.cell.array.copy(),s.pbc.copy())
    try: c=Classifier().classify(s)
    except Exception as e:
        tb=traceback.extract_tb(e.__traceback__); fr=[f for f in tb if "/repo/matid" in f.filename][-1]
        res['FAIL-exc']+=1; fails.append(('exc',kind,type(e).__name__,fr.filename.split('matid/')[-1],fr.lineno)); continue
    res['n']+=1; res['D=%s'%dz]+=1; t=type(c)
    exp={None:(Unknown,),0:(Atom,) if len(s)==1 else (Class0D,),1:(Class1D,),3:(Class3D,),2:(Class2D,Surface,Material2D)}[dz]
    if t not in exp: res['FAIL-class']+=1; fails.append(('class',kind,dz,t.__name__,len(s),s.pbc.tolist()))
    if not (np.array_equal(snap[0],s.positions) and np.array_equal(snap[2],s.cell.array)): res['FAIL-mutated']+=1
    if t in (Surface,Material2D):
        res['with-region']+=1
        b=set(c.basis_indices); o=set(c.outliers)
        if b&o or (b|o)!=set(range(len(s))) or len(b)/len(s)<0.5 or c.prototype_cell is None: res['FAIL-region']+=1; fails.append(('region',kind))
        c2=Classifier().classify(s)
        if type(c2) is not t or set(c2.basis_indices)!=b: res['FAIL-repeat']+=1
print(sys.argv[1],round(time.time()-t0,1),dict(sorted(res.items())))
seen=set()
for f in fails:
    if f[:3] not in seen: seen.add(f[:3]); print("   ",f)
