import ctypes, numpy as np, matid.geometry as g
L=ctypes.CDLL('/tmp/exp/shim/libms.so')
dp=ctypes.POINTER(ctypes.c_double); ip=ctypes.POINTER(ctypes.c_int); bp=ctypes.POINTER(ctypes.c_bool)
L.ms_displacement_tensor.argtypes=[dp,dp,dp,dp,ctypes.c_int,dp,bp,ctypes.c_double]
rng=np.random.default_rng(0); bad=0
for t in range(500):
    n=int(rng.integers(1,8)); cell=rng.normal(size=(3,3))*3+np.eye(3)*4
    if abs(np.linalg.det(cell))<5: continue
    pbc=rng.integers(0,2,3).astype(np.bool_); pos=np.ascontiguousarray(rng.uniform(0,1,(n,3))@cell)
    cutoff=float(rng.choice([np.inf, rng.uniform(0.5,8)]))
    D=np.full((n,n,3),np.inf); R=np.full((n,n),np.inf); F=np.full((n,n,3),np.inf)
    L.ms_displacement_tensor(D.ctypes.data_as(dp),R.ctypes.data_as(dp),F.ctypes.data_as(dp),pos.ctypes.data_as(dp),n,np.ascontiguousarray(cell).ctypes.data_as(dp),pbc.ctypes.data_as(bp),cutoff)
    d2,f2,r2=g.get_displacement_tensor(pos,cell,pbc,cutoff=cutoff,return_factors=True,return_distances=True)
    if not (np.array_equal(D,d2) and np.array_equal(R,r2) and np.array_equal(F,f2)): bad+=1
print("disagreements", bad)
