#include "geometry.h"
#include <cstring>
namespace py = pybind11;
extern "C" {
// extended system: returns handle
struct ExtH { ExtendedSystem s; };
void* ms_extend_system(double* pos, int* num, int n, double* cell, bool* pbc, double cutoff, int* n_out) {
    py::array_t<double> P(pos, {n, 3}); py::array_t<int> Z(num, {n}); py::array_t<double> C(cell, {3, 3}); py::array_t<bool> B(pbc, {3});
    ExtH* h = new ExtH{extend_system(P, Z, C, B, cutoff)};
    *n_out = (int)h->s.indices.size();
    return h;
}
void ms_ext_copy(void* hv, double* pos, int* num, int* idx, double* fac) {
    ExtH* h = (ExtH*)hv; int n = h->s.indices.size();
    memcpy(pos, h->s.positions.ptr, sizeof(double)*3*n); memcpy(num, h->s.atomic_numbers.ptr, sizeof(int)*n);
    memcpy(idx, h->s.indices.ptr, sizeof(int)*n); memcpy(fac, h->s.factors.ptr, sizeof(double)*3*n);
}
void ms_ext_free(void* hv) { delete (ExtH*)hv; }
void ms_displacement_tensor(double* disp, double* dist, double* fac, double* pos, int n, double* cell, bool* pbc, double cutoff) {
    py::array_t<double> D(disp, {n, n, 3}), R(dist, {n, n}), F(fac, {n, n, 3}), P(pos, {n, 3}), C(cell, {3, 3}); py::array_t<bool> B(pbc, {3});
    get_displacement_tensor(D, R, F, P, C, B, cutoff, true, true);
}
}
