#include "geometry.h"
#include <fuzzer/FuzzedDataProvider.h>
#include <cmath>
namespace py = pybind11;
extern "C" int LLVMFuzzerTestOneInput(const uint8_t* data, size_t size) {
    FuzzedDataProvider fdp(data, size);
    int n = fdp.ConsumeIntegralInRange<int>(1, 6);
    double cell[9]; bool pbc[3];
    for (int i = 0; i < 9; ++i) cell[i] = fdp.ConsumeFloatingPointInRange<double>(-6, 6);
    double det = cell[0]*(cell[4]*cell[8]-cell[5]*cell[7]) - cell[1]*(cell[3]*cell[8]-cell[5]*cell[6]) + cell[2]*(cell[3]*cell[7]-cell[4]*cell[6]);
    if (std::fabs(det) < 1.0) return 0;
    for (int i = 0; i < 3; ++i) pbc[i] = fdp.ConsumeBool();
    std::vector<double> pos(3*n); std::vector<int> num(n, 1);
    for (int a = 0; a < n; ++a) { double u[3]; for (int i=0;i<3;++i) u[i]=fdp.ConsumeFloatingPointInRange<double>(0,0.999);
        for (int m=0;m<3;++m) pos[3*a+m]=u[0]*cell[m]+u[1]*cell[3+m]+u[2]*cell[6+m]; }
    double cutoff = fdp.ConsumeFloatingPointInRange<double>(0.2, 3.0);
    py::array_t<double> P(pos.data(), {n,3}); py::array_t<int> Z(num.data(), {n}); py::array_t<double> C(cell, {3,3}); py::array_t<bool> B(pbc, {3});
    ExtendedSystem e = extend_system(P, Z, C, B, cutoff);
    if (e.indices.size() > 200000) return 0;
    CellList cl(e.positions, e.indices, e.factors, cutoff);
    CellListResult r = cl.get_neighbours_for_position(pos[0], pos[1], pos[2]);
    // oracle: brute force over E
    auto ep = e.positions.unchecked<2>(); size_t cnt = 0;
    for (py::ssize_t i = 0; i < e.indices.size(); ++i) { double dx=ep(i,0)-pos[0], dy=ep(i,1)-pos[1], dz=ep(i,2)-pos[2]; if (dx*dx+dy*dy+dz*dz <= cutoff*cutoff) ++cnt; }
    if (cnt != r.indices.size()) __builtin_trap();
    return 0;
}
