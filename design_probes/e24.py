import numpy as np, spglib, time, sys, collections, warnings
warnings.filterwarnings("ignore")
exec(open('e23.py').read().split("def sgof")[0].replace("rng=np.random.default_rng(int(sys.argv[1]))","rng=np.random.default_rng(5)"))
from scipy.spatial.transform import Rotation
def unimod():
    M=np.eye(3,dtype=int)
    for _ in range(rng.integers(1,5)):
        a,b=rng.choice(3,2,replace=False); M[a]+=rng.integers(-2,3)*M[b]
    return M
def transform(at):
    b=at.copy()
    # supercell
    if rng.random()<0.5:
        H=np.diag(rng.choice([[1,1,2],[1,2,2],[1,1,3],[2,1,1],[1,1,1]]))
        from ase.build import make_supercell
        b=make_supercell(b,H@unimod())
    else:
        M=unimod(); b.set_cell(M@b.cell.array, scale_atoms=False)
    Q=Rotation.random(random_state=int(rng.integers(1e9))).as_matrix()
    b.set_cell(b.cell.array@Q.T, scale_atoms=True)
    b.positions+=rng.uniform(-5,5,3)
    if rng.random()<0.5: b.wrap()
    b=b[rng.permutation(len(b))]
    return b
def desc(at):
    an=SymmetryAnalyzer(at,symmetry_tol=1e-3)
    ws=tuple(sorted((w.wyckoff_letter,w.element,len(w.indices)) for w in an.get_wyckoff_sets_conventional(False)))
    return dict(mid=an.get_material_id(), sg=an.get_space_group_number(), hall=an.get_hall_number(), halls=an.get_hall_symbol(), pg=an.get_point_group(), bl=an.get_bravais_lattice(), cs=an.get_crystal_system(), ws=ws, free=an.get_has_free_wyckoff_parameters(), chiral=an.get_is_chiral(), choice=an.get_choice())
res=collections.Counter(); ex={}
t0=time.time()
for it in range(1200):
    sg=int(rng.integers(1,231)); at=gen(sg)
    if at is None or len(at)>60: continue
    D=at.get_all_distances(mic=True); np.fill_diagonal(D,9)
    if D.min()<0.8: continue
    d1=spglib.get_symmetry_dataset((at.cell.array,at.get_scaled_positions(),at.numbers),symprec=1e-4); d2=spglib.get_symmetry_dataset((at.cell.array,at.get_scaled_positions(),at.numbers),symprec=1e-2)
    if d1.number!=d2.number: continue
    b=transform(at)
    try: A=desc(at); B=desc(b)
    except Exception as e: res['exc:'+type(e).__name__]+=1; ex.setdefault('exc',(sg,str(e)[:80])); continue
    res['n']+=1
    for k in A:
        if A[k]!=B[k]: res['diff:'+k]+=1; ex.setdefault(k,(sg,A[k],B[k]))
print(time.time()-t0,res); 
for k,v in ex.items(): print(k,v)
