import numpy as np, time
import ase.build
from ase import Atoms
from ase.data import covalent_radii
from matid.clustering import SBC
import matid.geometry as g
orig = SBC._clean_clusters
def patched(self, clusters, bt):
    pre=[len(c.indices) for c in clusters]
    out = orig(self, clusters, bt)
    print("pre-clean", pre, "post-clean", [len(c.indices) for c in out])
    return out
SBC._clean_clusters = patched
rng=np.random.default_rng(3)
for pbc in (False, True):
  cu = ase.build.bulk("Cu","fcc",a=3.6,cubic=True)*[4,4,4]
  cu.set_pbc(pbc); 
  if not pbc: cu.center(vacuum=6)
  for t in range(4):
    s = cu.copy()
    D = s.get_all_distances(mic=pbc)
    i = rng.integers(len(s))
    nb = [j for j in range(len(s)) if j!=i and D[i,j] < 2*1.32+0.65]
    del s[nb]
    cl = SBC().get_clusters(s)
    for c in cl:
        d1=c.get_dimensionality(); d2=g.get_dimensionality(c.get_atoms(),0.65)
        print("   ", pbc, len(s), len(c.indices), c._distance_matrix_radii_mic.shape, "shortcut", d1, "direct", d2)
