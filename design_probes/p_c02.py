import numpy as np, time, sys, collections, warnings, itertools
warnings.filterwarnings("ignore")
import ase.build, networkx as nx
from ase.data import reference_states, chemical_symbols, covalent_radii
from ase import Atoms
from ase.spacegroup import crystal
from matid.clustering import SBC
def heights(cell):
    return np.abs(np.linalg.det(cell))/np.array([np.linalg.norm(np.cross(cell[(i+1)%3],cell[(i+2)%3])) for i in range(3)])
def library():
    lib=[]
    for Z in range(1,100):
        ref=reference_states[Z]
        if ref is None or ref['symmetry'] not in ('fcc','bcc','hcp','diamond','sc'): continue
        try:
            sym=chemical_symbols[Z]
            prim=ase.build.bulk(sym); 
            conv=ase.build.bulk(sym,cubic=True) if ref['symmetry'] in('fcc','bcc','diamond','sc') else ase.build.bulk(sym,orthorhombic=False)
            lib.append((sym,ref['symmetry'],prim,conv))
        except Exception: pass
    a=dict
    comp=[("NaCl","rocksalt",5.64),("MgO","rocksalt",4.21),("ZnS","zincblende",5.41),("GaAs","zincblende",5.65),("CsCl","cesiumchloride",4.12),("CaF2","fluorite",5.46)]
    for f,st,a in comp:
        prim=ase.build.bulk(f,st,a=a); conv=ase.build.bulk(f,st,a=a,cubic=True); lib.append((f,st,prim,conv))
    lib.append(("ZnO","wurtzite",ase.build.bulk("ZnO","wurtzite",a=3.25,c=5.2),ase.build.bulk("ZnO","wurtzite",a=3.25,c=5.2)))
    p=crystal(["Sr","Ti","O"],[(0,0,0),(.5,.5,.5),(.5,.5,0)],spacegroup=221,cellpar=[3.905]*3+[90]*3); lib.append(("SrTiO3","perovskite",p,p))
    r=crystal(["Ti","O"],[(0,0,0),(.305,.305,0)],spacegroup=136,cellpar=[4.594,4.594,2.959,90,90,90]); lib.append(("TiO2","rutile",r,r))
    l=crystal(["Li","O"],[(.25,.25,.25),(0,0,0)],spacegroup=225,cellpar=[4.62]*3+[90]*3,primitive_cell=True); lc=crystal(["Li","O"],[(.25,.25,.25),(0,0,0)],spacegroup=225,cellpar=[4.62]*3+[90]*3); lib.append(("Li2O","antifluorite",l,lc))
    return lib
def precond(s, noise, bt=0.65, ot=-0.6, base=0.15):
    m=base+2*noise
    from matid.geometry import get_displacement_tensor  # only for speed in this probe; the real oracle uses own mic
    D=s.get_all_distances(mic=True) if len(s)<400 else None
    if D is None: return "big"
    r=covalent_radii[s.numbers]; E=D-r[:,None]-r[None,:]; np.fill_diagonal(E,np.inf)
    if E.min()<ot+m: return "overlap"
    G=nx.Graph(); G.add_nodes_from(range(len(s))); ii,jj=np.where(E<=bt-m); G.add_edges_from(zip(ii,jj))
    if not nx.is_connected(G): return "unbonded"
    return None
def make(entry, form, facet, layers, pbcz, rng, mcs=6.0):
    sym,st,prim,conv=entry
    if len(prim)>6: return None,"natoms"
    if np.linalg.norm(prim.cell.array,axis=1).max()>=mcs-0.1: return None,"cellsize"
    if form=="bulk":
        reps=np.ceil((2*mcs+0.5)/heights(prim.cell.array)).astype(int)
        return prim*tuple(reps), None
    try:
        s=ase.build.surface(conv,facet,layers,vacuum=8,periodic=True)
    except Exception as e: return None,"surface-fail"
    h=heights(s.cell.array)
    reps=np.ceil((2*mcs+0.5)/h).astype(int); reps[2]=1
    s=s*tuple(reps)
    if h[2] < 2*mcs+0.5 and pbcz:
        # enlarge vacuum
        s.center(vacuum=(2*mcs+1)/2+2,axis=2)
    s.set_pbc([True,True,bool(pbcz)])
    return s,None
def present(s,noise,rng):
    s=s.copy()
    if noise:
        d=rng.normal(size=(len(s),3)); d/=np.linalg.norm(d,axis=1)[:,None]; s.positions+=d*noise*rng.uniform(0,1,(len(s),1))
    q=np.linalg.qr(rng.normal(size=(3,3)))[0]
    if np.linalg.det(q)<0: q[:,0]*=-1
    s.set_cell(s.cell.array@q.T,scale_atoms=True)
    s.positions+=rng.uniform(-5,5,3)
    return s[rng.permutation(len(s))]
if __name__=="__main__":
    shard=int(sys.argv[1]); nsh=int(sys.argv[2])
    rng=np.random.default_rng(100+shard)
    lib=library()
    cases=[(e,"bulk",None,None,1) for e in lib]+[(e,"slab",f,l,pz) for e in lib for f in [(1,0,0),(1,1,0),(1,1,1),(0,0,1)] for l in (3,4) for pz in (0,1)]
    res=collections.Counter(); fails=[]; t0=time.time()
    for ci,(e,form,facet,layers,pz) in enumerate(cases):
        if ci%nsh!=shard: continue
        s,why=make(e,form,facet,layers,pz,rng)
        if s is None: res['skip-'+why]+=1; continue
        if len(s)>450: res['skip-big']+=1; continue
        for noise in (0,0.05):
            pc=precond(s,noise)
            if pc: res['skip-'+pc]+=1; continue
            s2=present(s,noise,rng)
            t1=time.time()
            cl=SBC().get_clusters(s2,seed=int(rng.integers(1000)))
            dim=3 if form=="bulk" else 2
            ok=len(cl)==1 and len(cl[0].indices)==len(s2) and cl[0].get_dimensionality()==dim
            res['ok' if ok else 'FAIL']+=1
            if not ok: fails.append((e[0],e[1],form,facet,layers,pz,noise,len(s2),[(len(c.indices),c.get_dimensionality()) for c in cl]))
    print(shard,round(time.time()-t0,1),dict(res))
    for f in fails: print("   FAIL",f)
