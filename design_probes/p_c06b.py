import numpy as np, sys, collections, warnings, time, spglib, itertools
warnings.filterwarnings("ignore")
from ase import Atoms
from ase.cell import Cell
from p_cat import cellpar, orbit, SH
from p_cat2 import build
from matid.symmetry import SymmetryAnalyzer
from scipy.spatial.transform import Rotation
from ase.build import make_supercell
rng=np.random.default_rng(int(sys.argv[3])); res=collections.Counter(); ex=[]
def conv(at):
    an=SymmetryAnalyzer(at,symmetry_tol=1e-3); c=an.get_conventional_system()
    return an.get_has_free_wyckoff_parameters(), c.cell.cellpar(), sorted((int(z),)+tuple(np.round(p%1.0,4)%1.0) for z,p in zip(c.numbers,c.get_scaled_positions())), an.get_crystal_system()
def same(P,Q,tol=2e-4):
    if len(P)!=len(Q): return False
    Q=list(Q)
    for a in P:
        hit=None
        for k,b in enumerate(Q):
            if a[0]==b[0]:
                d=np.array(a[1:])-np.array(b[1:]); d-=np.rint(d)
                if np.abs(d).max()<tol: hit=k;break
        if hit is None: return False
        Q.pop(hit)
    return True
for sg in range(int(sys.argv[1]),int(sys.argv[2])+1):
    cat,_=build(sg,rng); db=spglib.get_symmetry_from_database(SH[sg]); Rs=db['rotations']; ts=db['translations']; ops=list(zip(Rs,ts))
    fixed=[l for l in sorted(cat) if cat[l]['stab'] is not None]
    # keep letters with zero free parameters: project two different random points -> same result
    def point(l,q): return np.mean([Rs[o]@q+ts[o]-np.array(n) for o,n in cat[l]['stab']],axis=0)
    fixed=[l for l in fixed if np.allclose(point(l,rng.uniform(0,1,3))%1.0,point(l,rng.uniform(0,1,3))%1.0,atol=1e-9)]
    if not fixed: continue
    pats=[(a,) for a in fixed]+list(itertools.permutations(fixed,2))+list(itertools.permutations(fixed,3))[:40]
    if len(pats)>30: pats=[pats[i] for i in rng.choice(len(pats),30,replace=False)]
    for pat in pats:
        pts=[];nums=[]
        for l,Z in zip(pat,[8,14,26]):
            o=orbit(ops,point(l,rng.uniform(0,1,3))); pts.append(o); nums+=[Z]*len(o)
        at=Atoms(numbers=nums,cell=Cell.fromcellpar(cellpar(sg,rng)).array,scaled_positions=np.vstack(pts),pbc=True)
        if len(at)>100: continue
        D=at.get_all_distances(mic=True); np.fill_diagonal(D,9)
        if len(at)>1 and D.min()<0.5: continue
        b=at.copy(); M=np.eye(3,dtype=int)
        for _ in range(3):
            a_,b_=rng.choice(3,2,replace=False); M[a_]+=rng.integers(-2,3)*M[b_]
        if rng.random()<0.5: b=make_supercell(b,np.diag(rng.choice([[1,1,2],[1,2,1],[2,1,1],[1,1,3]]))@M)
        else: b.set_cell(M@b.cell.array,scale_atoms=False)
        Q=Rotation.random(random_state=int(rng.integers(1e9))).as_matrix(); b.set_cell(b.cell.array@Q.T,scale_atoms=True)
        b.positions+=rng.choice([0,0.5,1/3,0.25],3)@at.cell.array+rng.uniform(-3,3,3); b.wrap(); b=b[rng.permutation(len(b))]
        try: A=conv(at); B=conv(b)
        except Exception as e: res['exc']+=1; continue
        if A[0] or B[0]: res['hasfree']+=1; continue
        res['pairs-'+A[3]]+=1
        okc=np.allclose(A[1],B[1],atol=1e-4); okp=same(A[2],B[2])
        if not okc: res['CELLDIFF-'+A[3]]+=1; ex.append((sg,pat,'cell',np.round(A[1],3).tolist(),np.round(B[1],3).tolist()))
        elif not okp: res['POSDIFF-'+A[3]]+=1; ex.append((sg,pat,'pos',A[2][:4],B[2][:4]))
print(sys.argv[1:3],dict(sorted(res.items())))
seen=set()
for e in ex:
    if (e[0],e[2]) not in seen: seen.add((e[0],e[2])); print("   ",e)
