import numpy as np, sys, time, collections, warnings, itertools
warnings.filterwarnings("ignore")
from ase import Atoms
from ase.cell import Cell
from scipy.optimize import lsq_linear
import matid.geometry as g
from netrank import heights
rng=np.random.default_rng(int(sys.argv[1]))
from p_c09 import rand_cell
def dist_to_cell(p, cell, active):
    # min |u.cell - p|, 0<=u<=1 (only rows in 'active' matter: zero rows contribute nothing)
    A=cell.T
    r=lsq_linear(A,p,bounds=(0,1),method='bvls',tol=1e-12)
    return np.linalg.norm(A@r.x-p)
res=collections.Counter(); fails=[]; t0=time.time()
for it in range(int(sys.argv[2])):
    cell=rand_cell(); pbc=rng.integers(0,2,3).astype(bool); n=int(rng.integers(1,9))
    nzero=0
    if rng.random()<0.25:
        for i in range(3):
            if not pbc[i] and rng.random()<0.6: cell[i]=0; nzero+=1
    f=rng.uniform(0,1,(n,3)); f[:,~pbc]=rng.uniform(-0.5,1.5,(n,(~pbc).sum()))
    from ase.geometry import complete_cell
    cc=complete_cell(cell)
    pos=f@cc; Z=rng.choice([1,6,8],n)
    ext=float(rng.uniform(0.2,4)); cut=float(rng.uniform(0.2,4))
    hh=heights(cc)
    if pbc.any() and ext/hh[pbc].min()>8: res['skip']+=1; continue
    at=Atoms(numbers=Z,positions=pos,cell=cell,pbc=pbc)
    E=g.get_extended_system(at,ext)
    Ep=np.array(E.positions); Ei=np.array(E.indices); Ef=np.array(E.factors); En=np.array(E.atomic_numbers)
    msg=None
    # originals first
    if not (np.array_equal(Ei[:n],np.arange(n)) and np.allclose(Ep[:n],pos) and (Ef[:n]==0).all()): msg="originals-first"
    if not np.allclose(Ep,pos[Ei]+Ef@cell,atol=1e-9): msg="not-image"
    if not np.array_equal(Ef,np.rint(Ef)) or (Ef[:,~pbc]!=0).any(): msg="factors"
    if not np.array_equal(En,Z[Ei]): msg="numbers"
    keys=set(zip(Ei.tolist(),map(tuple,Ef.astype(int).tolist())))
    if len(keys)!=len(Ei): msg="dup"
    # completeness
    K=[int(np.ceil(ext/hh[i]))+2 if pbc[i] else 0 for i in range(3)]
    offs=list(itertools.product(*[range(-k,k+1) for k in K]))
    nM=0
    for o in offs:
        for i in range(n):
            p=pos[i]+np.array(o)@cell
            # cheap bound first
            d=dist_to_cell(p,cc if nzero==0 else cell,None) if nzero==0 else None
            if nzero: 
                # degenerate: distance to the lower-dimensional set spanned by nonzero rows
                d=dist_to_cell(p,cell,None)
            if d<=ext-1e-9:
                nM+=1
                if (i,tuple(o)) not in keys: msg="incomplete ext: atom %d off %s d=%.4f ext=%.4f"%(i,o,d,ext)
    res['n']+=1; res['nzero=%d'%nzero]+=1
    if msg: res['FAIL']+=1; fails.append((msg,pbc.tolist(),nzero,np.round(cell,3).tolist())); continue
    if nzero: continue
    # neighbour queries
    cl=g.get_cell_list(pos,cell,pbc,ext,cut)
    for q in range(5):
        qp=rng.uniform(0,1,3)@cell
        r=cl.get_neighbours_for_position(*qp)
        ri=np.array(r.indices,int); 
        got=set()
        for a,(idx,io,d,disp,fac) in enumerate(zip(r.indices,r.indices_original,r.distances,r.displacements,r.factors)):
            p=pos[io]+np.array(fac)@cell
            if not np.allclose(p,Ep[idx],atol=1e-9) or Ei[idx]!=io: msg="q-entry-not-in-E"
            if abs(np.linalg.norm(qp-p)-d)>1e-9 or not np.allclose(np.array(disp),qp-p,atol=1e-9): msg="q-dist"
            if d>cut+1e-12: msg="q-beyond"
            got.add((io,tuple(int(x) for x in fac)))
        # completeness wrt E (stronger) and M
        dE=np.linalg.norm(Ep-qp,axis=1)
        for idx in np.where(dE<=cut-1e-9)[0]:
            if (int(Ei[idx]),tuple(Ef[idx].astype(int))) not in got: msg="q-incomplete d=%.4f cut=%.4f"%(dE[idx],cut)
        res['q']+=1
        # matches
        tol=min(ext,cut)*rng.uniform(0.3,1.0)
        num=int(rng.choice([1,6,8]))
        m,s,v,ci=g.get_matches(at,cl,qp[None,:],[num],tol)
        near=np.where(dE<=tol+1e-12)[0]
        if len(near)==0 or dE.min()>tol-1e-9 and dE.min()<tol+1e-9: 
            if len(near)==0:
                if m[0] is not None or s[0] is not None or len(v)!=1: msg="match-should-be-vacancy"
        else:
            srt=np.sort(dE)
            if len(srt)>1 and srt[1]-srt[0]<1e-9: res['tie']+=1
            else:
                k=np.argmin(dE); io=int(Ei[k])
                if Z[io]==num:
                    if m[0]!=io or s[0] is not None: msg="match-wrong %s vs %s"%(m[0],io)
                else:
                    if m[0] is not None or s[0] is None or s[0].index!=io: msg="subst-wrong"
                if not np.array_equal(ci[0],Ef[k]): msg="copy-index %s vs %s"%(ci[0],Ef[k])
        if msg: break
    if msg: res['FAIL']+=1; fails.append((msg,pbc.tolist(),ext,cut,np.round(cell,3).tolist()))
print(round(time.time()-t0,1),dict(res))
for f in fails[:8]: print("  ",f)
