import numpy as np, time, sys, collections, warnings, itertools
warnings.filterwarnings("ignore")
from p_c02 import *
import ase.build
from ase.data import reference_states, chemical_symbols
def metals(sym_type):
    out=[]
    for Z in range(1,100):
        ref=reference_states[Z]
        if ref and ref['symmetry']==sym_type and 'a' in ref: out.append((chemical_symbols[Z],ref['a']))
    return out
def slab(sym,a,st,facet,size,layers):
    f={('fcc',(1,0,0)):ase.build.fcc100,('fcc',(1,1,1)):ase.build.fcc111,('bcc',(1,0,0)):ase.build.bcc100,('bcc',(1,1,0)):ase.build.bcc110}[(st,facet)]
    return f(sym,size=(size,size,layers),a=a,vacuum=0.0)
def stack(A,B,gapdist):
    A=A.copy();B=B.copy()
    # strain B to A's inplane cell
    cb=B.cell.array.copy(); ca=A.cell.array.copy()
    sp=B.get_scaled_positions(); zB=B.positions[:,2].copy()
    newc=ca.copy(); newc[2]=[0,0,1]; 
    B.set_cell([ca[0],ca[1],[0,0,max(1e-3,np.ptp(zB))+1]],scale_atoms=False)
    spB=np.linalg.solve(cb[:2,:2].T,B.positions[:,:2].T).T
    B.positions[:,:2]=spB@ca[:2,:2]
    zA=A.positions[:,2]; 
    # choose vertical offset so that min A-B distance = gapdist
    B.positions[:,2]+= -zB.min()+zA.max()
    lo,hi=0.0,6.0
    from ase.geometry import get_distances
    def mind(dz):
        P=B.positions.copy(); P[:,2]+=dz
        top=A.positions[zA>zA.max()-0.1]; bot=P[B.positions[:,2]<B.positions[:,2].min()+0.1]
        cell=np.array([ca[0],ca[1],[0,0,100.0]])
        _,D=get_distances(top,bot,cell=cell,pbc=[1,1,0]); return D.min()
    for _ in range(40):
        mid=(lo+hi)/2
        if mind(mid)<gapdist: lo=mid
        else: hi=mid
    B.positions[:,2]+=hi
    S=A+B
    zmin,zmax=S.positions[:,2].min(),S.positions[:,2].max()
    S.set_cell([ca[0],ca[1],[0,0,zmax-zmin+14]],scale_atoms=False); S.positions[:,2]+=7-zmin
    return S
if __name__=="__main__":
    shard=int(sys.argv[1]); nsh=int(sys.argv[2]); rng=np.random.default_rng(shard)
    res=collections.Counter(); fails=[]; t0=time.time(); ci=0
    for st,facets in (('fcc',[(1,0,0),(1,1,1)]),('bcc',[(1,0,0),(1,1,0)])):
        ms=metals(st)
        for (sa,aa),(sb,ab) in itertools.permutations(ms,2):
            if abs(aa-ab)/aa>=0.05: continue
            for facet in facets:
                ci+=1
                if ci%nsh!=shard: continue
                la,lb=rng.integers(3,6,2); size=int(rng.integers(4,6)); pz=int(rng.integers(0,2)); noise=float(rng.choice([0,0.03]))
                A=slab(sa,aa,st,facet,size,la); B=slab(sb,aa,st,facet,size,lb)   # B built directly with A's lattice constant = strained
                gd=covalent_radii[A.numbers[0]]+covalent_radii[B.numbers[0]]+0.2
                S=stack(A,B,gd); S.set_pbc([1,1,pz])
                if precond(S,noise): res['skip-'+precond(S,noise)]+=1; continue
                nA=len(A)
                s2=S.copy()
                if noise:
                    d=rng.normal(size=(len(s2),3)); d/=np.linalg.norm(d,axis=1)[:,None]; s2.positions+=d*noise*rng.uniform(0,1,(len(s2),1))
                perm=rng.permutation(len(s2)); s2=s2[perm]
                setA={int(np.where(perm==i)[0][0]) for i in range(nA)}; setB=set(range(len(s2)))-setA
                cl=SBC().get_clusters(s2,seed=int(rng.integers(1000)))
                got=sorted([frozenset(c.indices) for c in cl],key=len)
                ok=len(cl)==2 and set(got)=={frozenset(setA),frozenset(setB)} and all(c.get_dimensionality()==2 for c in cl)
                res['ok' if ok else 'FAIL']+=1
                if not ok: fails.append((sa,sb,st,facet,la,lb,size,pz,noise,[(len(c.indices),c.get_dimensionality()) for c in cl]))
    print(shard,round(time.time()-t0,1),dict(res))
    for f in fails: print("   FAIL",f)
