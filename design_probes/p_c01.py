import numpy as np, time, sys, collections, warnings, itertools, traceback
warnings.filterwarnings("ignore")
import ase.build, networkx as nx
from ase import Atoms
from ase.cell import Cell
from ase.data import covalent_radii
from ase.data.vdw_alvarez import vdw_radii
from ase.geometry import find_mic, complete_cell
from matid.clustering import SBC
import matid.geometry as g
from netrank import dimensionality
from e19 import gen as gen_basic
PROTO=[("Cu","fcc",3.6),("Fe","bcc",2.87),("Si","diamond",5.43),("Mg","hcp",None),("NaCl","rocksalt",5.64),("ZnS","zincblende",5.41),("CsCl","cesiumchloride",4.12),("CaF2","fluorite",5.46)]
def proto(rng):
    n,st,a=PROTO[rng.integers(len(PROTO))]
    b=ase.build.bulk(n,st,a=a,cubic=(st not in('hcp',) and rng.random()<0.5)) if a else ase.build.bulk(n)
    return b
def gen(rng):
    kind=rng.choice(["basic","isolated","grains","stack","crystallite"],p=[0.35,0.2,0.15,0.15,0.15])
    if kind=="basic": return kind,gen_basic(rng)
    b=proto(rng); reps=tuple(rng.integers(2,5,3)); s=b*reps
    pbc=rng.integers(0,2,3).astype(bool)
    if kind=="isolated":
        D=s.get_all_distances(mic=True); r=covalent_radii[s.numbers]
        for _ in range(rng.integers(1,3)):
            if len(s)<10: break
            D=s.get_all_distances(mic=True); r=covalent_radii[s.numbers]
            i=rng.integers(len(s)); nb=[j for j in range(len(s)) if j!=i and D[i,j]-r[i]-r[j]<=0.65+0.05]
            del s[nb]
        s.set_pbc(pbc if rng.random()<0.5 else True)
        if not all(s.pbc): s.center(vacuum=5)
    elif kind=="crystallite":
        s.set_pbc(False); s.center(vacuum=rng.uniform(3,8))
        c=s.positions.mean(axis=0); d=np.linalg.norm(s.positions-c,axis=1); R=np.percentile(d,rng.uniform(40,100)); s=s[d<=R]
        if rng.random()<0.5:
            k=rng.integers(0,max(1,len(s)//4)); 
            if k: del s[list(rng.choice(len(s),k,replace=False))]
        s.set_pbc(pbc)
    elif kind=="grains":
        s.set_pbc(False); s2=s.copy(); 
        q=np.linalg.qr(rng.normal(size=(3,3)))[0]
        s2.positions=s2.positions@q.T; s2.positions+=[np.ptp(s.positions[:,0])+rng.uniform(1.5,3),0,0]-s2.positions.min(axis=0)+s.positions.min(axis=0)
        s=s+s2; s.center(vacuum=4); s.set_pbc(pbc)
    elif kind=="stack":
        b2=proto(rng); s2=b2*tuple(rng.integers(2,4,3)); s2.set_pbc(False); s.set_pbc(False)
        s2.positions+=[0,0,s.positions[:,2].max()-s2.positions[:,2].min()+rng.uniform(1.5,3)]
        s=s+s2; s.center(vacuum=4); s.set_pbc(pbc)
    if rng.random()<0.5: s.rattle(float(rng.choice([0.02,0.1])),seed=int(rng.integers(1e6)))
    if len(s)>300: s=s[:300]
    return kind,s
def true_mic(at):
    cc=complete_cell(at.cell.array); n=len(at); P=at.positions
    D=np.zeros((n,n))
    for i in range(n):
        v,l=find_mic(P-P[i],cc,at.pbc); D[i]=l
    return D
COUNT=collections.Counter()
orig_merge=SBC._merge_clusters; orig_loc=SBC._localize_clusters; orig_clean=SBC._clean_clusters
def w_merge(self,system,clusters,*a):
    n0=len(clusters); out=orig_merge(self,system,clusters,*a); self._v_merged=n0-len(out); return out
def w_loc(self,system,clusters,*a):
    cnt=collections.Counter(i for c in clusters for i in c.indices); self._v_multi=sum(1 for v in cnt.values() if v>1); return orig_loc(self,system,clusters,*a)
def w_clean(self,clusters,bt):
    n0=sum(len(c.indices) for c in clusters); k0=len(clusters); out=orig_clean(self,clusters,bt); self._v_cleaned=n0-sum(len(c.indices) for c in out); self._v_dropped=k0-len(out); return out
SBC._merge_clusters=w_merge; SBC._localize_clusters=w_loc; SBC._clean_clusters=w_clean
if __name__=="__main__":
    rng=np.random.default_rng(int(sys.argv[1])); res=collections.Counter(); fails=[]; t0=time.time()
    for it in range(int(sys.argv[2])):
        kind,s=gen(rng)
        if len(s)==0: continue
        zero_per=any((not s.cell.array[i].any()) and s.pbc[i] for i in range(3))
        bt=float(rng.choice([0.65,rng.uniform(0.4,1.0)])); rk=rng.choice(["covalent","vdw","custom"])
        radii=rk if rk!="custom" else rng.uniform(0.5,1.6,len(s))
        if rk=="vdw" and np.isnan(vdw_radii[s.numbers]).any(): rk="covalent"; radii="covalent"
        rad=covalent_radii[s.numbers] if rk=="covalent" else vdw_radii[s.numbers] if rk=="vdw" else radii
        kw=dict(bond_threshold=bt,radii=radii,seed=int(rng.integers(1000)),pos_tol=float(rng.choice([0.7,rng.uniform(0.1,1.0)])),max_cell_size=float(rng.choice([6,rng.uniform(3,9)])),merge_threshold=float(rng.choice([0.5,rng.uniform(0.1,0.9)])))
        snap=(s.positions.copy(),s.numbers.copy(),s.cell.array.copy(),s.pbc.copy())
        sb=SBC()
        try: cl=sb.get_clusters(s,**kw)
        except ValueError as e:
            res['valueerror-zero' if zero_per else 'FAIL-valueerror']+=1
            if not zero_per: fails.append(('valueerror',kind,str(e)[:60]))
            continue
        except Exception as e:
            tb=traceback.extract_tb(e.__traceback__); fr=[f for f in tb if "/repo/matid" in f.filename][-1]
            res['FAIL-exc']+=1; fails.append(('exc',kind,type(e).__name__,fr.filename.split('matid/')[-1],fr.lineno,s.pbc.tolist(),len(s))); continue
        res['n']+=1; res['kind-'+kind]+=1
        res['nclusters=%s'%min(len(cl),3)]+=1
        if sb._v_merged: res['had-merge']+=1
        if sb._v_multi: res['had-multiassigned']+=1
        if sb._v_cleaned: res['had-cleaned']+=1
        if sb._v_dropped: res['had-dropped-cluster']+=1
        def fail(k,*a): res['FAIL-'+k]+=1; fails.append((k,kind)+a)
        if not (np.array_equal(snap[0],s.positions) and np.array_equal(snap[1],s.numbers) and np.array_equal(snap[2],s.cell.array) and np.array_equal(snap[3],s.pbc)): fail('mutated')
        allidx=[]
        D=None
        for c in cl:
            ii=list(c.indices)
            if len(ii)==0: fail('empty'); continue
            if len(set(ii))!=len(ii) or min(ii)<0 or max(ii)>=len(s): fail('indices')
            allidx+=ii
            if not set(s.numbers[ii].tolist())<=set(int(x) for x in c.species): fail('species')
            cell=c.get_cell()
            if cell is None or sum(cell.pbc) not in (2,3): fail('cell')
            if zero_per: continue
            if D is None: D=true_mic(s)
            E=D[np.ix_(ii,ii)]-rad[ii][:,None]-rad[ii][None,:]
            G=nx.Graph(); G.add_nodes_from(range(len(ii))); a,b=np.where(E<=bt+1e-7); G.add_edges_from(zip(a,b))
            if not nx.is_connected(G): fail('disconnected',len(ii),nx.number_connected_components(G))
            # C13
            d1=c.get_dimensionality(); at=c.get_atoms()
            d2=g.get_dimensionality(at,bt,radii=(radii if isinstance(radii,str) else radii[ii]))
            if d1!=d2: res['C13-mismatch']+=1; res['C13-mismatch-cleaned' if sb._v_cleaned else 'C13-mismatch-notcleaned']+=1
            if d1!=c.get_dimensionality(): fail('C13-repeat')
        if len(set(allidx))!=len(allidx): fail('overlap')
        # determinism
        cl2=SBC().get_clusters(s,**kw)
        if [sorted(c.indices) for c in cl]!=[sorted(c.indices) for c in cl2]: fail('nondeterministic')
    print(sys.argv[1],round(time.time()-t0,1),dict(sorted(res.items())))
    seen=set()
    for f in fails:
        if f[0] not in seen: seen.add(f[0]); print("   ",f)
