"""Grid-stabiliser catalogue of Wyckoff positions (independent of MatID tables)."""
import numpy as np, spglib, pickle, time, itertools, collections, sys
from ase.cell import Cell
from p_cat import cellpar, wrapd, orbit, SH
def build(sg, rng, N=24, budget=4000):
    db=spglib.get_symmetry_from_database(SH[sg])
    Rs=np.array(db['rotations']); ts=np.array(db['translations'])
    ops=list(zip(Rs,ts))
    g=np.arange(N)/N
    P=np.array(list(itertools.product(g,g,g)))           # (M,3)
    # images: (nops, M, 3)
    img=np.einsum('oij,mj->omi',Rs,P)+ts[:,None,:]-P[None,:,:]
    nint=np.rint(img); fixed=np.abs(img-nint).max(axis=2)<1e-9   # (nops,M)
    order=fixed.sum(axis=0)
    cell=Cell.fromcellpar(cellpar(sg,rng)).array
    anchors=[orbit(ops,rng.uniform(0.05,0.95,3)) for _ in range(2)]
    def letter_of(p):
        tgt=orbit(ops,p)
        pts=np.vstack(anchors+[tgt]); nums=[1]*len(anchors[0])+[2]*len(anchors[1])+[50]*len(tgt)
        ds=spglib.get_symmetry_dataset((cell,pts,nums),symprec=1e-4)
        if ds is None or ds.number!=sg: return None
        return ds.wyckoffs[-1], len(tgt)
    cat={}; seen=set(); calls=0
    idxs=rng.permutation(len(P))
    # general
    r=letter_of(rng.uniform(0.05,0.95,3)); 
    if r: cat[r[0]]=dict(stab=None,mult=r[1])
    for m in idxs:
        if order[m]<=1: continue
        sel=np.where(fixed[:,m])[0]
        sig=(tuple(sel), tuple(map(tuple,nint[sel,m,:].astype(int))))
        if sig in seen: continue
        seen.add(sig)
        # project a random nearby point with the stabiliser (ops with their integer shifts)
        q=P[m]+rng.uniform(-0.2,0.2,3)
        stab=[(Rs[o], ts[o]-nint[o,m,:]) for o in sel]
        p=np.mean([R@q+t for R,t in stab],axis=0)
        r=letter_of(p); calls+=1
        if r and r[0] not in cat: cat[r[0]]=dict(stab=[(int(o),tuple(int(x) for x in nint[o,m,:])) for o in sel],mult=r[1])
        if calls>=budget: break
    return cat, calls
if __name__=="__main__":
    from matid.data.symmetry_data import WYCKOFF_SETS
    rng=np.random.default_rng(0)
    t0=time.time(); miss={}; tot=0; calls=0
    for sg in range(int(sys.argv[1]),int(sys.argv[2])+1):
        cat,c=build(sg,rng); calls+=c
        want=set(k for k in WYCKOFF_SETS[sg] if k!='translations')
        tot+=len(cat)
        if set(cat)!=want: miss[sg]=(sorted(want-set(cat)), sorted(set(cat)-want))
        # multiplicity cross-check with the table
        for k,v in cat.items():
            if k in want:
                W=WYCKOFF_SETS[sg]; em=len(W[k]['expressions'])*(len(W['translations'])+1)
                if em!=v['mult']: miss.setdefault(sg,[]).append(('mult',k,em,v['mult']))
    print(sys.argv[1:], round(time.time()-t0,1), tot, calls, miss)
