import numpy as np, spglib, pickle, time, itertools, collections, sys, warnings, re
warnings.filterwarnings("ignore")
from fractions import Fraction
from ase import Atoms
from ase.cell import Cell
from p_cat import cellpar, wrapd, orbit, SH
from p_cat2 import build
from p_c05 import SOH
from matid.symmetry import SymmetryAnalyzer
def ev(expr, v):
    s=expr.replace(' ',''); toks=re.findall(r'[+-]?[^+-]+', s); val=0.0
    for tk in toks:
        sign=1.0
        if tk[0]=='+': tk=tk[1:]
        elif tk[0]=='-': sign=-1.0; tk=tk[1:]
        m=re.fullmatch(r'(\d+(?:/\d+)?)?([xyz])?', tk); assert m,(expr,tk)
        coef=float(Fraction(m.group(1))) if m.group(1) else 1.0
        val+=sign*coef*(v[m.group(2)] if m.group(2) else 1.0)
    return val
def freevars(rep): return set(c for e in rep for c in e if c in 'xyz')
MULT={'P':1,'A':2,'B':2,'C':2,'I':2,'R':3,'F':4}
def checks(at, sg_intended, res, fails, tag):
    tol=1e-3
    cellt=(at.cell.array,at.get_scaled_positions(),at.numbers)
    d1=spglib.get_symmetry_dataset(cellt,symprec=1e-4); d2=spglib.get_symmetry_dataset(cellt,symprec=1e-2)
    if d1 is None or d2 is None or d1.number!=d2.number: res['illcond']+=1; return
    sg=d1.number; res['n']+=1
    an=SymmetryAnalyzer(at,symmetry_tol=tol)
    def fail(c,*a): res['FAIL-'+c]+=1; fails.append((c,sg,tag)+a)
    try:
        conv=an.get_conventional_system(); sets=an.get_wyckoff_sets_conventional(True)
    except Exception as e:
        fail('exc',type(e).__name__,str(e)[:50]); return
    # C15
    if an.get_is_chiral()!=(sg in SOH): fail('C15',an.get_is_chiral())
    # C07
    lc=np.array(an.get_wyckoff_letters_conventional()); ec=np.array(an.get_equivalent_atoms_conventional())
    idx=sorted(i for s in sets for i in s.indices)
    if idx!=list(range(len(conv))): fail('C07-partition')
    sym=spglib.get_symmetry((conv.cell.array,conv.get_scaled_positions(),conv.numbers),symprec=tol)
    sp=conv.get_scaled_positions(); cc=conv.cell.array
    d3=spglib.get_symmetry_dataset((cc,sp,conv.numbers),symprec=tol)
    if d3.number!=sg: fail('C05-sgchanged',d3.number)
    ident=np.allclose(d3.transformation_matrix,np.eye(3),atol=1e-6) and np.allclose(wrapd(d3.origin_shift),0,atol=1e-6)
    if ident and list(d3.wyckoffs)!=list(lc): fail('C07-letters')
    if not ident: res['restd-nonident']+=1
    for s in sets:
        ii=np.array(s.indices)
        if len(set(conv.numbers[ii]))!=1 or conv.get_chemical_symbols()[ii[0]]!=s.element: fail('C07-element')
        if set(lc[ii])!={s.wyckoff_letter}: fail('C07-letter-in-set')
        if s.multiplicity!=len(ii): fail('C07-mult')
        p=sp[ii[0]]
        img=(np.einsum('oij,j->oi',sym['rotations'],p)+sym['translations'])
        hit=set()
        for q in img:
            d=sp-q; d-=np.rint(d); dist=np.linalg.norm(d@cc,axis=1); k=np.argmin(dist)
            if dist[k]>5*tol: fail('C07-orbit-leaves'); break
            hit.add(int(k))
        else:
            if hit!=set(ii.tolist()): fail('C07-orbit',len(hit),len(ii))
        # C08
        fv=freevars(s.representative); vals={k:getattr(s,k) for k in 'xyz'}
        if {k for k,x in vals.items() if x is not None}!=fv: fail('C08-freevars',s.wyckoff_letter,vals)
        elif any(x is not None and not(0<=x<1) for x in vals.values()): fail('C08-range',vals)
        else:
            q=np.array([ev(e,{k:(x or 0.0) for k,x in vals.items()}) for e in s.representative])
            d=sp[ii]-q; d-=np.rint(d)
            if np.linalg.norm(d@cc,axis=1).min()>2*tol: fail('C08-regen',s.wyckoff_letter)
            if fv: res['sets-with-free']+=1
    hf=an.get_has_free_wyckoff_parameters()
    if hf!=any(freevars(s.representative) for s in sets): fail('C08-hasfree')
    # C12
    try:
        prim=an.get_primitive_system()
        lo,lp=np.array(an.get_wyckoff_letters_original()),np.array(an.get_wyckoff_letters_primitive())
        eo,ep=np.array(an.get_equivalent_atoms_original()),np.array(an.get_equivalent_atoms_primitive())
    except Exception as e:
        fail('C12-exc',type(e).__name__,str(e)[:50]); return
    if not (len(lo)==len(eo)==len(at) and len(lp)==len(ep)==len(prim) and len(lc)==len(ec)==len(conv)): fail('C12-len')
    def hist(sys_,letters): 
        c=collections.Counter(zip(letters.tolist(),sys_.numbers.tolist())); n=len(sys_); return {k:Fraction(v,n) for k,v in c.items()}
    if not (hist(at,lo)==hist(prim,lp)==hist(conv,lc)): fail('C12-ratio')
    for sy,l,e in ((at,lo,eo),(prim,lp,ep),(conv,lc,ec)):
        for cls in set(e.tolist()):
            m=e==cls
            if len(set(sy.numbers[m]))!=1 or len(set(l[m]))!=1: fail('C12-equiv'); break
    cen=spglib.get_spacegroup_type(d1.hall_number).international_short[0]; m=MULT[cen]
    if len(prim)*m!=len(conv) or abs(prim.get_volume()*m-conv.get_volume())>1e-6*conv.get_volume(): fail('C12-primsize',cen,len(prim),len(conv))
    dp=spglib.get_symmetry_dataset((prim.cell.array,prim.get_scaled_positions(),prim.numbers),symprec=tol)
    if dp.number!=sg: fail('C12-primsg',dp.number)
    pp=spglib.standardize_cell((prim.cell.array,prim.get_scaled_positions(),prim.numbers),to_primitive=True,no_idealize=True,symprec=tol)
    if pp is None or len(pp[2])!=len(prim): fail('C12-notprimitive')
    if abs(prim.get_volume()/len(prim)-at.get_volume()/len(at))>1e-4*at.get_volume()/len(at): fail('C12-volperatom')
    res['centring-'+cen]+=1
def run(sg0,sg1,seed,npat):
    rng=np.random.default_rng(seed); res=collections.Counter(); fails=[]
    for sg in range(sg0,sg1+1):
        cat,_=build(sg,rng)
        db=spglib.get_symmetry_from_database(SH[sg]); Rs=db['rotations']; ts=db['translations']; ops=list(zip(Rs,ts))
        letters=sorted(cat); gen_letter=[l for l in letters if cat[l]['stab'] is None][0]
        def point(l):
            q=rng.uniform(0.05,0.95,3)
            if cat[l]['stab'] is None: return q
            return np.mean([Rs[o]@q+ts[o]-np.array(n) for o,n in cat[l]['stab']],axis=0)
        pats=[(a,) for a in letters]+list(itertools.permutations(letters,2))
        if len(pats)>npat: pats=[pats[i] for i in rng.choice(len(pats),npat,replace=False)]
        for pat in pats:
            use=list(pat)+([gen_letter] if gen_letter not in pat else [])
            cell=Cell.fromcellpar(cellpar(sg,rng)).array
            pts=[];nums=[]
            for l,Z in zip(use,[8,14,26,50]):
                o=orbit(ops,point(l)); pts.append(o); nums+=[Z]*len(o)
            at=Atoms(numbers=nums,cell=cell,scaled_positions=np.vstack(pts),pbc=True)
            if len(at)>160: res['toobig']+=1; continue
            D=at.get_all_distances(mic=True); np.fill_diagonal(D,9)
            if D.min()<0.4: res['tooclose']+=1; continue
            # random presentation: unimodular + rotation + permutation
            M=np.eye(3,dtype=int)
            for _ in range(rng.integers(0,4)):
                a,b=rng.choice(3,2,replace=False); M[a]+=rng.integers(-2,3)*M[b]
            at.set_cell(M@at.cell.array,scale_atoms=False); at.wrap()
            at=at[rng.permutation(len(at))]
            checks(at,sg,res,fails,pat)
    return res,fails
if __name__=="__main__":
    t0=time.time(); res,fails=run(int(sys.argv[1]),int(sys.argv[2]),int(sys.argv[3]),int(sys.argv[4]))
    print(sys.argv[1:],round(time.time()-t0,1),dict(res))
    c=collections.Counter((f[0],f[1]) for f in fails)
    print("   buckets:",sorted(c.items())[:60])
    seen=set()
    for f in fails:
        if f[0] not in seen and f[0]!='C15': seen.add(f[0]); print("   e.g.",f)
