import numpy as np, spglib, pickle, time, itertools, collections, sys, warnings
warnings.filterwarnings("ignore")
from ase.cell import Cell
from p_cat import cellpar, wrapd, orbit, SH
from p_cat2 import build
from matid.data.symmetry_data import CHIRALITY_PRESERVING_EUCLIDEAN_NORMALIZERS as NORM, WYCKOFF_SETS
def std_lattice_for(sg, rng, ops):
    cell=Cell.fromcellpar(cellpar(sg,rng)).array
    pts=np.vstack([orbit(ops,rng.uniform(0.05,0.95,3)) for _ in range(3)]); n=len(pts)//3
    ds=spglib.get_symmetry_dataset((cell,pts,[1]*n+[2]*n+[3]*n),symprec=1e-4)
    return ds.std_lattice if ds is not None and ds.number==sg else None
def run(sg0,sg1,seed):
    rng=np.random.default_rng(seed); res=collections.Counter(); fails=[]
    for sg in range(sg0,sg1+1):
        db=spglib.get_symmetry_from_database(SH[sg]); Rs=db['rotations']; ts=db['translations']; ops=list(zip(Rs,ts))
        cat,_=build(sg,rng)
        cell=std_lattice_for(sg,rng,ops)
        if cell is None: res['nolattice']+=1; continue
        anchors=[orbit(ops,rng.uniform(0.05,0.95,3)) for _ in range(2)]
        def letter_of(p):
            tgt=orbit(ops,p)
            pts=np.vstack(anchors+[tgt]); nums=[1]*len(anchors[0])+[2]*len(anchors[1])+[50]*len(tgt)
            ds=spglib.get_symmetry_dataset((cell,pts,nums),symprec=1e-4)
            if ds is None or ds.number!=sg: return None
            ident=np.allclose(ds.transformation_matrix,np.eye(3),atol=1e-6) and np.allclose(wrapd(ds.origin_shift),0,atol=1e-6)
            return ds.wyckoffs[-1], ident
        def point(l):
            q=rng.uniform(0.05,0.95,3)
            if cat[l]['stab'] is None: return q
            return np.mean([Rs[o]@q+ts[o]-np.array(n) for o,n in cat[l]['stab']],axis=0)
        for l in sorted(cat):
            p=point(l); r=letter_of(p)
            if r is None: res['probe-none']+=1; continue
            res['probe-ident' if r[1] else 'probe-nonident']+=1
            if r[0]!=l: res['catalogue-letter-differs']+=1
            for i,nz in enumerate(NORM.get(sg,[])):
                T=nz['transformation']; q=(T[:3,:3]@p+T[:3,3])%1.0
                r2=letter_of(q)
                if r2 is None: res['img-none']+=1; continue
                if not (r[1] and r2[1]): res['img-nonident']+=1; continue
                res['perm-checked']+=1
                exp=nz['permutations'].get(r[0])
                if exp!=r2[0]: res['PERM-MISMATCH']+=1; fails.append((sg,i,r[0],exp,r2[0]))
    return res,fails
if __name__=="__main__":
    t0=time.time(); res,fails=run(int(sys.argv[1]),int(sys.argv[2]),int(sys.argv[3]))
    print(sys.argv[1:],round(time.time()-t0,1),dict(res))
    import collections as c
    print("   ", sorted(c.Counter((f[0],f[1]) for f in fails).items())[:40])
    for f in fails[:10]: print("   ",f)
